"""Worker interpreter: executes a range of run indices (or one replay file) of one
property under the PYTHONHASHSEED / build it was started with, and reports JSON
lines on the original stdout.  Everything the system under test prints goes to
/dev/null.
"""
import faulthandler
import json
import os
import signal
import sys
import time
import traceback
import warnings


class Ctx:
    pass


def _stall_handler(signum, frame):
    from .containers import SimStall
    raise SimStall("CPU budget of one run exceeded")


def _load_xdeps(expect_root, build):
    import xdeps
    f = os.path.realpath(xdeps.__file__)
    if expect_root and not f.startswith(os.path.realpath(expect_root)):
        raise RuntimeError("xdeps imported from %s, expected under %s" % (f, expect_root))
    from xdeps.refs import is_cythonized
    if build == "compiled" and not is_cythonized():
        raise RuntimeError("expected the compiled build")
    if build == "pure" and is_cythonized():
        raise RuntimeError("expected the pure-python build")
    from xdeps.general import _print
    _print.suppress = True
    return xdeps


def sut_exception_outcome(a, exc):
    """An exception that escaped a driver: if it was RAISED INSIDE the system under test (innermost frame in the scratch
    copy of xdeps) while the oracle was merely observing it (printing an expression, reading a log, ...), the system is
    unusable at that point and that is a violation; if it was raised by the simulator's own code it is a harness error."""
    tb = exc.__traceback__
    last = None
    while tb is not None:
        last = tb
        tb = tb.tb_next
    if last is None or not a.scratch:
        return None
    fn = os.path.realpath(last.tb_frame.f_code.co_filename)
    if not fn.startswith(os.path.realpath(a.scratch)):
        return None
    frames = traceback.extract_tb(exc.__traceback__)
    mine = [f for f in frames if "/xsim/" in f.filename]
    where = "%s:%d" % (os.path.basename(mine[-1].filename), mine[-1].lineno) if mine else "?"
    msg = "xdeps raised %s: %s at %s:%d (%s) while the check was observing it (%s)" % (
        type(exc).__name__, str(exc)[:300], os.path.basename(fn), last.tb_lineno, last.tb_frame.f_code.co_name, where)
    return {"violation": {"cls": a.prop + ".sut_exception", "msg": msg, "attrs": {"exc": type(exc).__name__}, "step": None},
            "nontrivial": True, "stats": {}, "extra": {}, "trace_digest": None}


def shrink_case(driver, ctx, case, viol, budget_s=60.0):
    """ddmin over case['ops'] (and over the other list-valued parts the driver names),
    keeping the same violation class."""
    from .common import ddmin
    cls = viol["cls"]
    t_end = time.process_time() + budget_s
    parts = getattr(driver, "shrink_parts", ("ops",))

    def mk(part, sub):
        c = dict(case)
        c[part] = list(sub)
        return c

    cur = dict(case)
    for part in parts:
        if part not in cur or not isinstance(cur[part], (list, tuple)):
            continue

        def fails(sub, part=part):
            if time.process_time() > t_end:
                return False
            try:
                out = driver.execute(ctx, mk2(cur, part, sub))
            except Exception:
                return False
            v = out["violation"]
            return v is not None and v["cls"] == cls

        def mk2(base, part, sub):
            c = dict(base)
            c[part] = list(sub)
            return c

        small = ddmin(list(cur[part]), fails, max_tests=300)
        cur = mk2(cur, part, small)
    simp = getattr(driver, "simplify", None)
    if simp is not None:
        try:
            cur = simp(ctx, cur, cls, t_end)
        except Exception:
            pass
    return cur


def main(argv=None):
    import argparse
    ap = argparse.ArgumentParser()
    ap.add_argument("--prop", required=True)
    ap.add_argument("--seed", type=int, required=True)
    ap.add_argument("--tier", default="quick")
    ap.add_argument("--build", default="pure")
    ap.add_argument("--runs", default=None)       # a:b
    ap.add_argument("--replay", default=None)
    ap.add_argument("--known", default="")
    ap.add_argument("--replay-dir", default="/verif/replays")
    ap.add_argument("--scratch", default="")
    ap.add_argument("--batch", type=int, default=0)
    ap.add_argument("--run-budget", type=float, default=25.0)
    ap.add_argument("--no-shrink", action="store_true")
    ap.add_argument("--dump-digests", action="store_true")
    ap.add_argument("--emit-cases", action="store_true")
    ap.add_argument("--runlist", default=None)    # comma separated run indices executed in this order in one interpreter
    a = ap.parse_args(argv)

    out = os.fdopen(os.dup(1), "w")
    devnull = os.open(os.devnull, os.O_WRONLY)
    os.dup2(devnull, 1)
    sys.stdout = open(os.devnull, "w")
    warnings.simplefilter("ignore")
    faulthandler.enable(file=sys.stderr)

    def emit(obj):
        out.write(json.dumps(obj, default=repr) + "\n")
        out.flush()

    try:
        xd = _load_xdeps(a.scratch, a.build)
        from .registry import driver_for
        driver = driver_for(a.prop)
    except Exception:
        emit({"type": "error", "msg": traceback.format_exc()})
        return 2

    ctx = Ctx()
    ctx.seed, ctx.tier, ctx.xd, ctx.prop, ctx.build = a.seed, a.tier, xd, a.prop, a.build
    ctx.hashseed = os.environ.get("PYTHONHASHSEED", "")
    known_pats = [x for x in a.known.split(",") if x]

    class _Known:
        """known-finding classes; entries may be fnmatch patterns (C11.*.eqne)"""
        def __contains__(self, cls):
            import fnmatch
            return any(fnmatch.fnmatchcase(cls, p) for p in known_pats)
    known = _Known()
    signal.signal(signal.SIGVTALRM, _stall_handler)
    from .containers import SimStall, _Ctx

    def guarded(fn, budget):
        signal.setitimer(signal.ITIMER_VIRTUAL, budget)
        try:
            return fn()
        finally:
            signal.setitimer(signal.ITIMER_VIRTUAL, 0)
            _Ctx.trace = None
            _Ctx.fault = None

    # ---------------- replay mode ----------------
    if a.replay:
        from .common import tuplify
        with open(a.replay) as fh:
            rp = json.load(fh)
        case = driver.case_from_json(rp["case"]) if hasattr(driver, "case_from_json") else tuplify(rp["case"])
        o = None
        try:
            o = guarded(lambda: driver.execute(ctx, case), a.run_budget * 3)
            v = o["violation"]
        except SimStall:
            v = {"cls": a.prop + ".stall", "msg": "stall", "attrs": {}, "step": None}
        except Exception as e:
            o = sut_exception_outcome(a, e)
            if o is None:
                emit({"type": "error", "msg": traceback.format_exc()})
                return 2
            v = o["violation"]
        emit({"type": "replay", "violation": v, "trace_digest": (o or {}).get("trace_digest"),
              "steps": ((o or {}).get("extra") or {}).get("steps")})
        return 0

    # ---------------- run-list mode: a violation that depends on what ran earlier in the same interpreter -------------
    if a.runlist is not None:
        runs = [int(x) for x in a.runlist.split(",") if x != ""]
        v = None
        at = None
        for run in runs:
            try:
                case = driver.generate(ctx, run)
                o = guarded(lambda: driver.execute(ctx, case), a.run_budget)
                v = o["violation"]
            except SimStall:
                v = {"cls": a.prop + ".stall", "msg": "stall", "attrs": {}, "step": None}
            except Exception as e:
                o = sut_exception_outcome(a, e)
                if o is None:
                    emit({"type": "error", "msg": traceback.format_exc()})
                    return 2
                v = o["violation"]
            if v is not None and v["cls"] not in known:
                at = run
                break
            v = None
        emit({"type": "runlist", "violation": v, "at": at})
        return 0

    # ---------------- search mode ----------------
    lo, hi = [int(x) for x in a.runs.split(":")]
    agg = {"type": "batch", "batch": a.batch, "build": a.build, "hashseed": ctx.hashseed,
           "evaluations": 0, "digests": [], "nontrivial": [], "stats": {}, "inter": [],
           "known": {}, "violations": [], "samples": [], "cpu_s": 0.0, "run_digests": []}
    t0 = time.process_time()
    from .common import digest
    inter = set()
    for run in range(lo, hi):
        try:
            case = driver.generate(ctx, run)
        except Exception:
            emit({"type": "error", "msg": "generate run %d: %s" % (run, traceback.format_exc())})
            return 2
        cd = digest(case)
        try:
            o = guarded(lambda: driver.execute(ctx, case), a.run_budget)
        except SimStall:
            o = {"violation": {"cls": a.prop + ".stall", "msg": "one run exceeded its CPU budget of %.0fs" % a.run_budget,
                               "attrs": {}, "step": None}, "nontrivial": False, "stats": {}, "extra": {}, "trace_digest": None}
        except Exception as e:
            o = sut_exception_outcome(a, e)
            if o is None:
                emit({"type": "error", "msg": "execute run %d: %s\ncase=%s" % (run, traceback.format_exc(), json.dumps(case, default=repr)[:3000])})
                return 2
        agg["evaluations"] += 1
        agg["digests"].append(cd)
        if a.dump_digests:
            agg["run_digests"].append([run, cd, o.get("trace_digest"), (o["violation"] or {}).get("cls"),
                                       (o.get("extra") or {}).get("steps")])
        if a.emit_cases:
            agg.setdefault("cases", {})[str(run)] = case
        if o["nontrivial"]:
            agg["nontrivial"].append(cd)
        for k, n in o["stats"].items():
            agg["stats"][k] = agg["stats"].get(k, 0) + n
        for pr in o["extra"].get("inter", ()):
            inter.add(tuple(pr))
        for k, n in o["extra"].get("counters", {}).items():
            agg["stats"][k] = agg["stats"].get(k, 0) + n
        if len(agg["samples"]) < 2 and o["nontrivial"] and o["violation"] is None:
            agg["samples"].append({"run": run, "case": case})
        v = o["violation"]
        if v is not None:
            if v["cls"] in known:
                k = agg["known"].setdefault(v["cls"], {"count": 0, "first": None})
                k["count"] += 1
                if k["first"] is None:
                    k["first"] = {"run": run, "msg": v["msg"]}
                continue
            # a new violation: minimise, write the replay file, stop this batch
            small = case
            if not a.no_shrink and v["cls"].split(".")[-1] != "stall":
                try:
                    small = guarded(lambda: shrink_case(driver, ctx, case, v), 150.0)
                    o2 = guarded(lambda: driver.execute(ctx, small), a.run_budget)
                    if o2["violation"] is None or o2["violation"]["cls"] != v["cls"]:
                        small = case
                    else:
                        v = o2["violation"]
                except Exception:
                    small = case
            os.makedirs(a.replay_dir, exist_ok=True)
            path = os.path.join(a.replay_dir, "%s-%d-%d.json" % (a.prop, a.seed, run))
            with open(path, "w") as fh:
                json.dump({"property": a.prop, "seed": a.seed, "run": run, "tier": a.tier,
                           "hashseed": ctx.hashseed, "build": a.build,
                           "violation": v, "case": small, "original_case": case}, fh, default=repr, indent=0)
            agg["violations"].append({"run": run, "cls": v["cls"], "msg": v["msg"], "replay": path, "step": v.get("step")})
            break
    agg["inter"] = [list(x) for x in inter]
    agg["cpu_s"] = time.process_time() - t0
    emit(agg)
    return 0


if __name__ == "__main__":
    sys.exit(main())
