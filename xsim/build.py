"""Scratch builds of /repo/xdeps made from the *working tree* (DESIGN 3.1).

/repo/xdeps/refs.*.so is git-ignored build output that does not follow edits of
refs.py, so nothing here ever imports /repo's installed package.  Two trees
are produced below one scratch directory outside /repo and /verif:

  <scratch>/pure/xdeps      copy of the sources without refs.c / refs.*.so
  <scratch>/compiled/xdeps  same sources, refs.py cythonized with -O0

A content-addressed cache of the compiled extension (keyed by the sha256 of
refs.py and the interpreter/Cython versions) avoids re-running gcc when the
same refs.py is built again; it is an optimisation only - when the cache is
absent or XSIM_NO_CACHE=1 the extension is rebuilt.
"""
import atexit
import hashlib
import os
import shutil
import signal
import subprocess
import sys
import tempfile

REPO = os.environ.get("XSIM_REPO", "/repo")
PY = os.environ.get("XSIM_PYTHON", "/venv/bin/python")
TMPROOT = os.environ.get("XSIM_TMPDIR", "/var/tmp")
CACHE = os.path.join(TMPROOT, "xsim-cache")

_scratch_dirs = []


def _cleanup():
    for d in _scratch_dirs:
        shutil.rmtree(d, ignore_errors=True)
    _scratch_dirs.clear()


atexit.register(_cleanup)


def _sig(signum, frame):
    _cleanup()
    sys.exit(2)


def install_signal_cleanup():
    for s in (signal.SIGTERM, signal.SIGINT, signal.SIGHUP):
        try:
            signal.signal(s, _sig)
        except Exception:
            pass


def _copy_sources(dst_pkg):
    src = os.path.join(REPO, "xdeps")

    def ign(d, names):
        return [n for n in names
                if n.endswith((".so", ".c", ".pyc", ".o")) or n in ("__pycache__", "build")]

    shutil.copytree(src, dst_pkg, ignore=ign)


def source_digest():
    """sha256 over all python sources of the working tree (reported in evidence)."""
    h = hashlib.sha256()
    src = os.path.join(REPO, "xdeps")
    for root, dirs, files in os.walk(src):
        dirs.sort()
        dirs[:] = [d for d in dirs if d != "__pycache__"]
        for f in sorted(files):
            if f.endswith(".py"):
                p = os.path.join(root, f)
                h.update(os.path.relpath(p, src).encode())
                with open(p, "rb") as fh:
                    h.update(fh.read())
    return h.hexdigest()


def _refs_key():
    with open(os.path.join(REPO, "xdeps", "refs.py"), "rb") as fh:
        data = fh.read()
    try:
        import Cython
        cv = Cython.__version__
    except Exception:
        cv = "?"
    h = hashlib.sha256(data)
    h.update(("|%s|%s" % (sys.version, cv)).encode())
    return h.hexdigest()[:32]


_BUILD_SCRIPT = r"""
import sys, os
from setuptools import setup
from Cython.Build import cythonize
sys.argv = ['x', 'build_ext', '--inplace', '-q']
setup(name='x', ext_modules=cythonize('xdeps/refs.py', quiet=True, language_level=3))
"""


def _compile(tree):
    """Cythonize <tree>/xdeps/refs.py in place; returns path of the .so"""
    key = _refs_key()
    cached = os.path.join(CACHE, key + ".so")
    so_name = None
    use_cache = os.environ.get("XSIM_NO_CACHE") != "1"
    if use_cache and os.path.exists(cached):
        import sysconfig
        so_name = "refs" + sysconfig.get_config_var("EXT_SUFFIX")
        shutil.copy2(cached, os.path.join(tree, "xdeps", so_name))
        return os.path.join(tree, "xdeps", so_name)
    env = dict(os.environ)
    env["CFLAGS"] = "-O0 -g0"
    env.pop("PYTHONPATH", None)
    r = subprocess.run([PY, "-c", _BUILD_SCRIPT], cwd=tree, env=env,
                       stdout=subprocess.PIPE, stderr=subprocess.STDOUT, text=True)
    sos = [f for f in os.listdir(os.path.join(tree, "xdeps")) if f.startswith("refs.") and f.endswith(".so")]
    if r.returncode != 0 or not sos:
        raise RuntimeError("cython build of refs.py failed:\n" + r.stdout[-4000:])
    so = os.path.join(tree, "xdeps", sos[0])
    # drop intermediates
    shutil.rmtree(os.path.join(tree, "build"), ignore_errors=True)
    try:
        os.remove(os.path.join(tree, "xdeps", "refs.c"))
    except OSError:
        pass
    if use_cache:
        try:
            os.makedirs(CACHE, exist_ok=True)
            tmp = cached + ".%d.tmp" % os.getpid()
            shutil.copy2(so, tmp)
            os.replace(tmp, cached)
            # keep the cache small: newest 6 entries
            ents = sorted((os.path.getmtime(os.path.join(CACHE, f)), f) for f in os.listdir(CACHE) if f.endswith(".so"))
            for _, f in ents[:-6]:
                os.remove(os.path.join(CACHE, f))
        except OSError:
            pass
    return so


def make_scratch(need_compiled=True):
    """Return dict(root=..., pure=<PYTHONPATH entry>, compiled=<PYTHONPATH entry or None>)."""
    os.makedirs(TMPROOT, exist_ok=True)
    root = tempfile.mkdtemp(prefix="xsim-", dir=TMPROOT)
    _scratch_dirs.append(root)
    pure = os.path.join(root, "pure")
    os.makedirs(pure)
    _copy_sources(os.path.join(pure, "xdeps"))
    out = {"root": root, "pure": pure, "compiled": None}
    if need_compiled:
        comp = os.path.join(root, "compiled")
        os.makedirs(comp)
        _copy_sources(os.path.join(comp, "xdeps"))
        _compile(comp)
        out["compiled"] = comp
    return out


def remove_scratch(info):
    shutil.rmtree(info["root"], ignore_errors=True)
    if info["root"] in _scratch_dirs:
        _scratch_dirs.remove(info["root"])
