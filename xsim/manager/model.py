"""Executable reference model of a dependency manager (DESIGN 3.5).

Independent of xdeps: plain dicts, a mirror AST, *pull* evaluation of every
definition from the leaves with ordinary Python operators.

Paths:  (label, step, step, ...)   step = ('i', key) | ('a', name) | ('c', keypath)
        ('c', keypath) is an item access whose key is the value of another location.
AST:    ('lit', v) | ('ref', path) | ('bin', op, a, b) | ('un', op, a)
        | ('bi', name, a, params) | ('call', fname, args, kwargs)
        kwargs = tuple of (name, ast)
"""
import math
import operator

from ..common import same
from ..containers import FUNCS

NAN = float("nan")
MAXMAG = 1e60
MAXBITS = 220


class ModelReject(Exception):
    """The op is not applicable in the current model state (precondition)."""


def _truediv(a, b):
    try:
        return a / b
    except ZeroDivisionError:
        return NAN


def _floordiv(a, b):
    try:
        return a // b
    except ZeroDivisionError:
        return NAN


def _mod(a, b):
    try:
        return a % b
    except ZeroDivisionError:
        return NAN


def _pow(a, b):
    # same value as a ** b, but refuses (as an arithmetic error -> the op is not generated)
    # results whose size would make the *model* itself blow up
    if isinstance(a, int) and isinstance(b, int) and b > 0 and a.bit_length() * b > 4 * MAXBITS:
        raise OverflowError("model: integer power too large")
    return a ** b


def _mul(a, b):
    if isinstance(a, (tuple, list)) or isinstance(b, (tuple, list)):
        raise TypeError("model: sequence repetition is kept out of the workloads")
    return a * b


def _lshift(a, b):
    if isinstance(b, int) and b > MAXBITS:
        raise OverflowError("model: shift too large")
    return a << b


# deferred semantics (zero division -> NaN for / // %)
BINOPS = {
    "+": operator.add, "-": operator.sub, "*": _mul,
    "/": _truediv, "//": _floordiv, "%": _mod, "**": _pow,
    "&": operator.and_, "|": operator.or_, "^": operator.xor,
    "<<": _lshift, ">>": operator.rshift,
    "<": operator.lt, "<=": operator.le, ">": operator.gt, ">=": operator.ge,
    "==": operator.eq, "!=": operator.ne,
}
# immediate semantics (what Python does on plain values; may raise)
PYOPS = dict(BINOPS)
PYOPS.update({"/": operator.truediv, "//": operator.floordiv, "%": operator.mod})

UNOPS = {"-": operator.neg, "+": operator.pos, "~": operator.invert}
BUILTINS = {"abs": abs, "round": round, "divmod": divmod,
            "floor": math.floor, "ceil": math.ceil, "trunc": math.trunc}



def prefixes(path):
    """All declared-dependency locations of an access path: the path itself
    and every enclosing container below the root label."""
    return [path[:i] for i in range(2, len(path) + 1)]


def step_kind(ctype):
    """kind of path step a container type is addressed with: attribute, numpy-integer item, numpy-string item, item"""
    return {"obj": "a", "nplist": "n", "npdict": "s"}.get(ctype, "i")


def path_str(path):
    s = path[0]
    for kind, key in path[1:]:
        if kind == "i":
            s += "[%r]" % (key,)
        elif kind == "n":
            s += "[np.int64(%d)]" % key        # numpy >= 2 repr of an np.int64 item key
        elif kind == "s":
            s += "[np.str_(%r)]" % (key,)      # numpy >= 2 repr of an np.str_ item key
        elif kind == "a":
            s += ".%s" % key
        else:
            s += "[%s]" % path_str(key)
    return s


def ast_paths(ast, out=None):
    """Every ref path occurring in the AST (including key paths)."""
    if out is None:
        out = []
    t = ast[0]
    if t in ("lit", "nplit"):
        return out
    if t == "idx":
        return ast_paths(ast[1], out)
    if t == "ref":
        out.append(ast[1])
        for st in ast[1][1:]:
            if st[0] == "c":
                out.append(st[1])
    elif t == "bin":
        ast_paths(ast[2], out)
        ast_paths(ast[3], out)
    elif t == "un":
        ast_paths(ast[2], out)
    elif t == "bi":
        ast_paths(ast[2], out)
    elif t == "call":
        out.append(("f", ("a", ast[1])))
        for a in ast[2]:
            ast_paths(a, out)
        for _, a in ast[3]:
            ast_paths(a, out)
    return out


def has_ref(ast):
    t = ast[0]
    if t in ("lit", "nplit"):
        return False
    if t in ("ref", "call"):
        return True
    if t == "idx":
        return has_ref(ast[1])
    if t == "bin":
        return has_ref(ast[2]) or has_ref(ast[3])
    return has_ref(ast[2])


def decl_deps(ast):
    out = set()
    for p in ast_paths(ast):
        out.update(prefixes(p))
    return out


def ast_size(ast):
    t = ast[0]
    if t in ("lit", "ref", "nplit"):
        return 1
    if t == "bin":
        return 1 + ast_size(ast[2]) + ast_size(ast[3])
    if t in ("un", "bi"):
        return 1 + ast_size(ast[2])
    if t == "idx":
        return 1 + ast_size(ast[1])
    if t == "call":
        return 1 + sum(ast_size(a) for a in ast[2]) + sum(ast_size(a) for _, a in ast[3])
    return 1


class Spec:
    """Static shape of a world: roots and the tree of containers below them.

    roots: list of (label, mode, ctype, children)   mode in 'ref' | 'refattr'
    children: list of (key, node); node = ('leaf', typ, init) | (ctype, children)
    """

    def __init__(self, roots, funcs=True):
        self.roots = roots
        self.funcs = funcs
        self.leaves = []        # leaf paths in creation order
        self.leaf_type = {}
        self.init = {}
        self.containers = {}    # nested container path -> ctype
        self.children = {}      # container path (incl. roots (label,)) -> list of child paths
        self.root_mode = {}
        for label, mode, ctype, children in roots:
            self.root_mode[label] = (mode, ctype)
            self._walk((label,), ctype, children)

    def _walk(self, path, ctype, children):
        kind = step_kind(ctype)
        self.children[path] = []
        for key, node in children:
            p = path + ((kind, key),)
            self.children[path].append(p)
            if node[0] == "leaf":
                self.leaves.append(p)
                self.leaf_type[p] = node[1]
                self.init[p] = node[2]
            else:
                self.containers[p] = node[0]
                self._walk(p, node[0], node[1])

    def to_json(self):
        return {"roots": self.roots, "funcs": self.funcs}

    @staticmethod
    def from_json(j):
        from ..common import tuplify
        return Spec(tuplify(j["roots"]), j.get("funcs", True))

    def leaves_under(self, path):
        n = len(path)
        return [l for l in self.leaves if l[:n] == path]


class Model:
    def __init__(self, spec):
        self.spec = spec
        self.val = dict(spec.init)      # raw stored value of each leaf
        self.defs = {}                  # leaf path -> AST
        self.ftasks = {}                # name -> dict(deps, targets, coefs)
        self.knobs = {}                 # name -> dict(source, weights, targets, prev)
        self.ft_target = {}             # leaf -> (name, j)
        self.kn_target = {}             # leaf -> (name, j)
        self.order = []                 # registration order of task ids (for dump order)
        self.frozen = False
        self.wrap = {}                  # label -> key: the tree of that root lives in root[key] (World.wrap)
        self.funcs = {"add3": "add3", "lin": "lin", "mix": "mix", "vsum": "vsum"}   # slot of the function container -> implementation

    def pfx(self, path):
        """Declared-dependency locations of an access path (see prefixes); below a rebound label
        every path additionally passes through the holder container."""
        if path[0] in self.wrap:
            return [(path[0], ("w", self.wrap[path[0]]))] + prefixes(path)
        return prefixes(path)

    def decl_deps(self, ast):
        out = set()
        for p in ast_paths(ast):
            out.update(self.pfx(p))
        return out

    # ---- copying -------------------------------------------------------
    def clone(self):
        m = Model.__new__(Model)
        m.spec = self.spec
        m.val = dict(self.val)
        m.defs = dict(self.defs)
        m.ftasks = {k: dict(v) for k, v in self.ftasks.items()}
        m.knobs = {k: dict(v) for k, v in self.knobs.items()}
        m.ft_target = dict(self.ft_target)
        m.kn_target = dict(self.kn_target)
        m.order = list(self.order)
        m.frozen = self.frozen
        m.wrap = self.wrap
        m.funcs = dict(self.funcs)
        return m

    def adopt(self, other):
        self.__dict__.update(other.__dict__)

    # ---- structure -----------------------------------------------------
    def is_leaf(self, p):
        return p in self.spec.leaf_type

    def is_derived(self, p):
        return p in self.defs or p in self.ft_target or p in self.kn_target

    def static_reads_of_ast(self, ast):
        out = []
        for p in ast_paths(ast):
            if p[0] == "f":
                continue
            # computed step: whole container may be read
            cpos = [i for i, st in enumerate(p) if i > 0 and st[0] == "c"]
            if cpos:
                out.extend(self.spec.leaves_under(p[:cpos[0]]))
            elif p in self.spec.leaf_type:
                out.append(p)
            else:
                out.extend(self.spec.leaves_under(p))
        return out

    def static_reads(self, loc):
        if loc in self.defs:
            return self.static_reads_of_ast(self.defs[loc])
        if loc in self.ft_target:
            return list(self.ftasks[self.ft_target[loc][0]]["deps"])
        if loc in self.kn_target:
            return [self.knobs[self.kn_target[loc][0]]["source"]]
        return []

    def e_acyclic(self):
        """Exact data-flow graph among derived locations has no cycle."""
        WHITE, GREY, BLACK = 0, 1, 2
        col = {}
        derived = list(self.defs) + list(self.ft_target) + list(self.kn_target)
        for s in derived:
            if col.get(s, WHITE) != WHITE:
                continue
            stack = [(s, iter(self.static_reads(s)))]
            col[s] = GREY
            while stack:
                node, it = stack[-1]
                adv = False
                for d in it:
                    if not self.is_derived(d):
                        continue
                    c = col.get(d, WHITE)
                    if c == GREY:
                        return False
                    if c == WHITE:
                        col[d] = GREY
                        stack.append((d, iter(self.static_reads(d))))
                        adv = True
                        break
                if not adv:
                    col[node] = BLACK
                    stack.pop()
        return True

    # ---- public task graph G (declared sets) ---------------------------
    def tid_str(self, tid):
        """printed form of a task id: expression tasks and function tasks registered under a reference print as that
        reference, the others as their string id"""
        if tid[0] == "e":
            return path_str(tid[1])
        if tid[0] == "f" and self.ftasks[tid[1]].get("reftid"):
            return path_str(self.ftasks[tid[1]]["targets"][0])
        return "%s:%s" % (tid[0], tid[1])

    def tasks_decl(self):
        """taskid -> (deps set, targets set) in declared (prefix-closed) form.
        taskid = ('e', path) | ('f', name) | ('k', name)"""
        out = {}
        for loc, ast in self.defs.items():
            out[("e", loc)] = (self.decl_deps(ast), set(self.pfx(loc)))
        for name, ft in self.ftasks.items():
            d = set()
            for p in ft["deps"]:
                d.update(self.pfx(p))
            t = set()
            for p in ft["targets"]:
                t.update(self.pfx(p))
            out[("f", name)] = (d, t)
        for name, kn in self.knobs.items():
            out[("k", name)] = ({kn["source"]}, set(kn["targets"]))
        return out

    @staticmethod
    def g_edges(decl):
        ids = list(decl)
        edges = {a: [] for a in ids}
        for a in ids:
            ta = decl[a][1]
            for b in ids:
                if a is not b and not ta.isdisjoint(decl[b][0]):
                    edges[a].append(b)
        return edges

    @staticmethod
    def has_cycle(edges, nodes=None):
        """cycle of length >= 2 in the sub-graph induced by `nodes`"""
        if nodes is None:
            nodes = set(edges)
        col = {}
        for s in nodes:
            if s in col:
                continue
            stack = [(s, iter(edges[s]))]
            col[s] = 1
            while stack:
                node, it = stack[-1]
                adv = False
                for d in it:
                    if d not in nodes:
                        continue
                    c = col.get(d, 0)
                    if c == 1:
                        return True
                    if c == 0:
                        col[d] = 1
                        stack.append((d, iter(edges[d])))
                        adv = True
                        break
                if not adv:
                    col[node] = 2
                    stack.pop()
        return False

    def g_acyclic(self):
        decl = self.tasks_decl()
        return not self.has_cycle(self.g_edges(decl))

    def trigger(self, start_locs, decl=None, edges=None):
        """Tasks whose declared dependencies meet start_locs, closed under G."""
        if decl is None:
            decl = self.tasks_decl()
        if edges is None:
            edges = self.g_edges(decl)
        start = set(start_locs)
        trig = set()
        work = [t for t in decl if not decl[t][0].isdisjoint(start)]
        while work:
            t = work.pop()
            if t in trig:
                continue
            trig.add(t)
            work.extend(edges[t])
        return trig, decl, edges

    # ---- evaluation ----------------------------------------------------
    def _ev(self, ast, get, deferred=True):
        t = ast[0]
        if t == "lit":
            return ast[1]
        if t == "nplit":
            import numpy as np
            return np.float64(ast[1])       # a numpy scalar used as a literal (e.g. a weight taken from an array)
        if t == "ref":
            return get(ast[1])
        if t == "bin":
            a = self._ev(ast[2], get)
            b = self._ev(ast[3], get)
            if (isinstance(a, tuple) or isinstance(b, tuple)) and (type(a).__module__ == "numpy" or type(b).__module__ == "numpy"):
                # python refuses tuple (op) number; numpy would broadcast it into an array: kept out of the workloads
                raise TypeError("model: sequence combined with a numpy scalar")
            return (BINOPS if deferred else PYOPS)[ast[1]](a, b)
        if t == "un":
            return UNOPS[ast[1]](self._ev(ast[2], get))
        if t == "bi":
            return BUILTINS[ast[1]](self._ev(ast[2], get), *ast[3])
        if t == "idx":
            return self._ev(ast[1], get)[ast[2]]
        if t == "call":
            args = [self._ev(a, get) for a in ast[2]]
            kw = {k: self._ev(a, get) for k, a in ast[3]}
            if ast[1] == "vsum":
                return _vsum_model(args[0])
            if any(isinstance(a, (tuple, list)) for a in args) or any(isinstance(a, (tuple, list)) for a in kw.values()):
                raise TypeError("model: sequences are not passed to the arithmetic helper functions (k * tuple repeats it)")
            return FUNCS[self.funcs[ast[1]]](*args, **kw)
        raise AssertionError(ast)

    def evaluate(self, trig_knobs=()):
        """Pull-evaluate every leaf.  Returns (values, new_prev) where values maps each
        leaf to its expected content.  Knobs listed in trig_knobs apply their increment."""
        memo = {}
        spec = self.spec

        def resolve(path):
            # returns a concrete leaf/container path (computed keys evaluated)
            if not any(st[0] == "c" for st in path[1:]):
                return path
            out = (path[0],)
            for st in path[1:]:
                if st[0] == "c":
                    k = getval(st[1])
                    ctype = spec.containers.get(out) or spec.root_mode[out[0]][1]
                    if ctype in ("list", "nplist"):
                        n = len(spec.children[out])
                        if not isinstance(k, int) or isinstance(k, bool) or not (0 <= k < n):
                            raise IndexError(k)
                    out = out + ((step_kind(ctype), k),)
                else:
                    out = out + (st,)
            return out

        def getval(path):
            p = resolve(path)
            if p in spec.leaf_type:
                if p in memo:
                    return memo[p]
                if self.is_derived(p):
                    raise ModelReject("evaluation order")
                return self.val[p]
            if p in spec.children:
                return [(c[-1][1], getval(c)) for c in spec.children[p] if c in spec.leaf_type]
            raise KeyError(path_str(p))

        def compute(loc):
            if loc in self.defs:
                return self._ev(self.defs[loc], getval)
            if loc in self.ft_target:
                name, j = self.ft_target[loc]
                ft = self.ftasks[name]
                row = ft["coefs"][j]
                tot = row[-1]
                for c, d in zip(row, ft["deps"]):
                    tot = tot + c * getval(d)
                return tot
            if loc in self.kn_target:
                name, j = self.kn_target[loc]
                kn = self.knobs[name]
                if name in trig_knobs:
                    src = getval(kn["source"])
                    if isinstance(src, tuple) or isinstance(kn["prev"], tuple):
                        raise TypeError("model: a linear knob needs a numeric source")
                    # one increment per entry of the knob's target list that names this location (a location may be
                    # driven through several weights), applied one after the other as the knob does
                    v = self.val[loc]
                    for jj, t in enumerate(kn["targets"]):
                        if t == loc:
                            v = v + kn["weights"][jj] * (src - kn["prev"])
                    return v
                return self.val[loc]
            return self.val[loc]

        derived = list(self.defs) + list(self.ft_target) + list(self.kn_target)
        for root in derived:
            if root in memo:
                continue
            stack = [root]
            while stack:
                l = stack[-1]
                if l in memo:
                    stack.pop()
                    continue
                missing = [d for d in self.static_reads(l) if self.is_derived(d) and d not in memo]
                if missing:
                    if len(stack) > len(derived) + 5:
                        raise ModelReject("cycle")
                    stack.extend(missing)
                    continue
                memo[l] = compute(l)
                stack.pop()
        values = {}
        for l in spec.leaves:
            values[l] = memo[l] if l in memo else self.val[l]
        new_prev = {}
        for name in trig_knobs:
            if name in self.knobs:
                new_prev[name] = values[self.knobs[name]["source"]]
        return values, new_prev

    @staticmethod
    def sane(values):
        for v in values.values():
            if not _sane(v):
                return False
        return True

    def commit_eval(self, values, new_prev):
        for loc in self.kn_target:
            self.val[loc] = values[loc]
        for name, p in new_prev.items():
            self.knobs[name]["prev"] = p

    # ---- current expected value of one location (after last commit) -----
    def expected(self):
        values, _ = self.evaluate(())
        return values


def _sane(v):
    if type(v).__module__ == "numpy" and getattr(v, "shape", ()) != ():
        return False          # numpy broadcast a scalar over a tuple somewhere: arrays are not what these workloads are about
    if isinstance(v, bool):
        return True
    if isinstance(v, int):
        return v.bit_length() <= MAXBITS
    if isinstance(v, float):
        return math.isnan(v) or abs(v) <= MAXMAG
    if isinstance(v, tuple):
        return all(_sane(x) for x in v)
    return True


def _vsum_model(items):
    tot = 0
    for _, v in items:
        if isinstance(v, (int, float)):
            tot = tot + v
    return tot


# ---------------------------------------------------------------------------
# operations
# ---------------------------------------------------------------------------
EVAL_ERRORS = (ArithmeticError, TypeError, ValueError, LookupError)


def _check_ast(m, ast):
    if not has_ref(ast):
        raise ModelReject("expression without a reference")
    spec = m.spec
    for p in ast_paths(ast):
        if p[0] == "f":
            if not spec.funcs or p[1][1] not in FUNCS:
                raise ModelReject("unknown function")
            continue
        cpos = [i for i, st in enumerate(p) if i > 0 and st[0] == "c"]
        if cpos:
            if len(cpos) > 1 or cpos[0] < len(p) - 2:
                raise ModelReject("one computed key, as the last step or the last but one")
            base = p[:cpos[0]]
            if p[cpos[0]][1] not in spec.leaf_type:
                raise ModelReject("key location must be a leaf")
            if base not in spec.children:
                raise ModelReject("computed key needs a container")
            if cpos[0] == len(p) - 1:
                if not all(c in spec.leaf_type for c in spec.children[base]):
                    raise ModelReject("computed key needs a container of leaves")
            else:
                # rows[<key>][field]: every element is a record holding that field as a leaf
                if not all(c in spec.children and (c + (p[-1],)) in spec.leaf_type for c in spec.children[base]):
                    raise ModelReject("computed key followed by a field needs a list of records with that field")
        elif p not in spec.leaf_type and p not in spec.containers:
            raise ModelReject("unknown location " + path_str(p))


def _free_leaf(m, p, allow_knob_target=False):
    if p not in m.spec.leaf_type:
        raise ModelReject("not a leaf")
    if p in m.ft_target or (p in m.kn_target and not allow_knob_target):
        raise ModelReject("location is the target of a function/knob task")


def _claim_leaf(m, path, allow_knob_target=False):
    """Precondition of an assignment to `path`.  If a function task is registered under this very reference (its task
    id is the reference of its first target), the assignment removes that task first - exactly as it removes an
    expression; its targets keep the values they hold."""
    if path in m.ft_target:
        name, j = m.ft_target[path]
        ft = m.ftasks[name]
        if ft.get("reftid") and j == 0:
            cur, _ = m.evaluate(())
            for t in ft["targets"]:
                m.val[t] = cur[t]
                del m.ft_target[t]
            del m.ftasks[name]
            m.order.remove(("f", name))
    _free_leaf(m, path, allow_knob_target)


def _apply(m, op):
    """Mutate model m by op; return list of start locations for propagation, or None."""
    kind = op[0]
    if kind == "setv":
        _, path, value = op[:3]
        # a plain value may be assigned to the target of a linear knob: the knob keeps adding its increments to it
        _claim_leaf(m, path, allow_knob_target=True)
        if path in m.defs:
            del m.defs[path]
            m.order.remove(("e", path))
        m.val[path] = value
        return m.pfx(path)
    if kind == "sete":
        _, path, ast = op[:3]
        _claim_leaf(m, path)
        _check_ast(m, ast)
        if path in m.defs:
            m.order.remove(("e", path))
        m.defs[path] = ast
        m.order.append(("e", path))
        return m.pfx(path)
    if kind == "inpl":
        _, path, o, operand = op[:4]
        _claim_leaf(m, path)
        if path in m.defs:
            return _apply(m, ("sete", path, ("bin", o, m.defs[path], operand)))
        if operand[0] == "lit":
            try:
                v = PYOPS[o](m.val[path], operand[1])
            except EVAL_ERRORS as e:
                raise ModelReject("python raises: %r" % (e,))
            return _apply(m, ("setv", path, v))
        cur = m.val[path]
        if type(cur).__module__ == "numpy":
            # value (op)= expression with a numpy scalar as the old value: numpy, standing on the left, owns the operator
            raise ModelReject("numpy scalar on the left of a reference")
        if isinstance(cur, float) and (cur != cur or cur in (float("inf"), float("-inf"))):
            # the old value becomes a literal of the new expression; C11 quantifies over finite constants only
            raise ModelReject("non-finite value would become a literal")
        if isinstance(cur, float) and cur == 0.0:
            # the sign of a float zero is not compared anywhere (same() equates -0.0 and 0.0: Cython's float*int
            # fast path gives 0.0 * -3 == 0.0 where the interpreter gives -0.0), so it must not enter printed text
            raise ModelReject("float zero of unspecified sign would become a literal")
        return _apply(m, ("sete", path, ("bin", o, ("lit", cur), operand)))
    if kind == "unreg":
        path = op[1]
        if path not in m.defs:
            raise ModelReject("no expression there")
        cur, _ = m.evaluate(())
        m.val[path] = cur[path]
        del m.defs[path]
        m.order.remove(("e", path))
        return None
    if kind == "setc":
        _, path, values = op[:3]
        spec = m.spec
        if path not in spec.containers:
            raise ModelReject("not a nested container")
        ch = spec.children[path]
        if not all(c in spec.leaf_type for c in ch) or len(ch) != len(values):
            raise ModelReject("container shape")
        if any(m.is_derived(c) for c in ch):
            raise ModelReject("container holds a derived member (excluded by the property)")
        if any(c == k["source"] for k in m.knobs.values() for c in ch):
            # the knob is booked under the element, not under the container: whether replacing the container "assigns" the
            # element is not something the statements say
            raise ModelReject("container holds the source of a linear knob")
        for c, v in zip(ch, values):
            m.val[c] = v
        return m.pfx(path)
    if kind == "regf":
        _, name, deps, targets, coefs = op[:5]
        if name in m.ftasks or name in m.knobs:
            raise ModelReject("task name in use")
        if len(set(targets)) != len(targets):
            raise ModelReject("duplicate")
        if not targets and (not deps or (len(op) > 5 and op[5])):
            raise ModelReject("a task without targets (an observer) needs dependencies and a task id of its own")
        ksrc = {k["source"] for k in m.knobs.values()}
        for t in targets:
            _free_leaf(m, t)
            if t in m.defs or t in ksrc or t in deps:
                raise ModelReject("target not free")
        for d in deps:
            if d not in m.spec.leaf_type:
                raise ModelReject("dep not a leaf")
        m.ftasks[name] = {"deps": tuple(deps), "targets": tuple(targets), "coefs": coefs,
                          "reftid": bool(op[5]) if len(op) > 5 else False}
        for j, t in enumerate(targets):
            m.ft_target[t] = (name, j)
        m.order.append(("f", name))
        start = set()
        for d in deps:
            start.update(m.pfx(d))
        if not deps:
            return ("TASK", ("f", name))      # nothing triggers it: the user runs this one task once
        return sorted(start, key=repr)
    if kind == "unregf":
        name = op[1]
        if name not in m.ftasks:
            raise ModelReject("no such task")
        cur, _ = m.evaluate(())
        for t in m.ftasks[name]["targets"]:
            m.val[t] = cur[t]
            del m.ft_target[t]
        del m.ftasks[name]
        m.order.remove(("f", name))
        return None
    if kind == "regk":
        _, name, source, weights, targets = op[:5]
        if name in m.ftasks or name in m.knobs:
            raise ModelReject("task name in use")
        if source not in m.spec.leaf_type or source in m.ft_target or source in m.kn_target:
            raise ModelReject("knob source must be a leaf nothing else than an expression writes")
        if not targets or len(weights) != len(targets):
            raise ModelReject("knob shape")
        ksrc = {k["source"] for k in m.knobs.values()}
        for t in targets:
            _free_leaf(m, t)
            if len(t) != 2 or t in m.defs or t == source or t in ksrc:
                raise ModelReject("knob target not free")
        cur, _ = m.evaluate(())
        if isinstance(cur[source], (tuple, list)) or isinstance(cur[source], bool):
            raise ModelReject("a linear knob needs a numeric source")
        m.knobs[name] = {"source": source, "weights": tuple(weights), "targets": tuple(targets),
                         "prev": cur[source]}
        for j, t in enumerate(targets):
            if t not in m.kn_target:
                m.kn_target[t] = (name, j)
        m.order.append(("k", name))
        return None
    if kind == "unregk":
        name = op[1]
        if name not in m.knobs:
            raise ModelReject("no such knob")
        for t in set(m.knobs[name]["targets"]):
            del m.kn_target[t]
        del m.knobs[name]
        m.order.remove(("k", name))
        return None
    if kind == "setfunc":
        from ..containers import SLOTS
        _, slot, impl = op[:3]
        if not m.spec.funcs or slot not in SLOTS or impl not in SLOTS[slot] or slot == "vsum":
            raise ModelReject("no such function slot")
        m.funcs[slot] = impl
        return [("f", ("a", slot))]
    if kind in ("load", "copyfrom"):
        _, pairs, overwrite = op[:3]
        if not pairs:
            raise ModelReject("empty load")
        for path, ast in pairs:
            _free_leaf(m, path)
            _check_ast(m, ast)
            if path in m.defs:
                if not overwrite:
                    continue
                m.order.remove(("e", path))
            m.defs[path] = ast
            m.order.append(("e", path))
        return ALL
    if kind in ("refresh", "cleanup", "verify"):
        return None
    raise ModelReject("unknown op %r" % (kind,))


ALL = "ALL"   # start marker: every task is (re)run, in dependency order


class StepInfo:
    __slots__ = ("start", "trig", "decl", "edges", "values", "g_cyclic_trig", "g_cyclic")


def model_step(model, op, g_restricted=False, want_graph=True):
    """Apply op to the model (atomically).  Raises ModelReject if not applicable."""
    if model.frozen:
        raise ModelReject("frozen")
    m = model.clone()
    start = _apply(m, op)
    if not m.e_acyclic():
        raise ModelReject("data-flow cycle")
    info = StepInfo()
    info.start = start
    decl = m.tasks_decl()
    edges = m.g_edges(decl)
    info.decl, info.edges = decl, edges
    info.g_cyclic = m.has_cycle(edges)
    if g_restricted and info.g_cyclic:
        raise ModelReject("public task graph would get a cycle")
    if isinstance(start, tuple) and len(start) == 2 and start[0] == "TASK":
        trig = set()
        work = [start[1]]
        while work:
            t = work.pop()
            if t not in trig:
                trig.add(t)
                work.extend(edges[t])
    elif start == ALL:
        trig = set(t for t in decl if decl[t][0])
    elif start is not None:
        trig, _, _ = m.trigger(start, decl, edges)
    else:
        trig = set()
    info.trig = trig
    info.g_cyclic_trig = m.has_cycle(edges, trig) if (trig and info.g_cyclic) else False
    try:
        values, new_prev = m.evaluate({t[1] for t in trig if t[0] == "k"})
    except EVAL_ERRORS as e:
        raise ModelReject("model evaluation raises %r" % (e,))
    except RecursionError:
        raise ModelReject("model recursion")
    if not m.sane(values):
        raise ModelReject("values out of the sane range")
    m.commit_eval(values, new_prev)
    info.values = values
    model.adopt(m)
    return info
