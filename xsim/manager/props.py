"""Per-property drivers of manager-sim.  Each driver exposes

    generate(ctx, run) -> case      (pure function of seed/run; JSON-able)
    execute(ctx, case) -> Outcome   (deterministic given the interpreter's hash seed and build)

Outcome: dict(violation=None|{cls,msg,attrs,step}, digest, nontrivial, stats, extra)
"""
from ..common import rng_for, digest, canon, tuplify, same, plain, h64
from .model import Spec, Model, path_str, step_kind
from .gen import swarm_config, gen_spec, HistoryGen, swap_colliding_literal
from .execute import Exec, Violation, PROPAGATING


def _outcome(ex, viol, step, nontrivial, extra=None, trace_digest=None):
    return {"violation": (dict(viol.to_json(), step=step) if viol is not None else None),
            "nontrivial": bool(nontrivial), "stats": ex.stats if ex is not None else {},
            "extra": extra or {}, "trace_digest": trace_digest}


def case_from_json(j):
    if "chain" in j or "cyclic" in j or "collide" in j or "subscript" in j:
        return j
    return {"cfg": j["cfg"], "spec": j["spec"], "ops": [tuplify(o) for o in j["ops"]],
            **{k: tuplify(v) for k, v in j.items() if k not in ("cfg", "spec", "ops")}}


def gen_history_case(ctx, run, prop, **over):
    over_frozen = over.pop("frozen_windows", False)
    rc = rng_for(ctx.seed, prop, run, "cfg")
    cfg = swarm_config(rc, ctx.tier, **over)
    cfg["nplit"] = rc.random() < 0.2       # numpy scalars as literals inside expressions
    cfg["npkeys"] = rc.random() < 0.4      # numpy-integer / bool item keys (never in workloads that go through printed text)
    if cfg["npkeys"]:
        cfg["weights"]["load"] = 0
    if prop == "C01" and cfg["g_restricted"] and rc.random() < 0.4:
        # actions of function tasks that assign their results through the manager's references (an assignment made
        # from inside a running update: its dependants are run at once, and again where the outer update has them).
        # Contents only: "exactly once" (C02) is not what the unmodified code does for such actions.
        cfg["ft_via_ref"] = True
        cfg["weights"]["regf"] = max(cfg["weights"].get("regf", 0), 8)
        # no linear knobs in these runs: a knob downstream of such an action runs twice in one update (on the intermediate and on
        # the final value of its source) and books its increment in two parts - the same number up to rounding only
        cfg["weights"]["regk"] = 0
    spec = gen_spec(rng_for(ctx.seed, prop, run, "spec"), cfg)
    hg = HistoryGen(rng_for(ctx.seed, prop, run, "ops"), cfg, spec)
    ops = hg.history()
    if over_frozen and rc.random() < 0.35 and len(ops) >= 6:
        ops = add_frozen_windows(rng_for(ctx.seed, prop, run, "frozen"), ops)
    if over_frozen and rc.random() < 0.3:
        # one or two assignments fail half-way first (a container read or write raises at a seeded position) and are then
        # repeated: the repeat is an assignment like any other (what the failed attempt itself may do is C18's business)
        rf = rng_for(ctx.seed, prop, run, "faulty")
        ops = insert_markers(rf, ops, lambda r: ("faulty", r.choice(["r", "r", "w"]), r.randint(0, 12)), 1, 2)
    return {"cfg": cfg, "spec": spec.to_json(), "ops": ops}


def add_frozen_windows(r, ops):
    """Two stretches of the history run on a frozen manager (freeze_tree ... unfreeze_tree): there only the plain
    value assignments are carried out (the others are skipped by the executor), and they must propagate as ever.
    The second window repeats assignments of the first one with new values - the same location is assigned on a
    frozen manager before and after the graph was edited in between."""
    ops = list(ops)
    n = len(ops)
    a = r.randint(0, n - 4)
    b = min(n - 2, a + r.randint(1, 4))
    c = min(n - 1, b + r.randint(1, 4))
    d = min(n, c + r.randint(1, 4))
    rep = []
    for o in ops[a:b]:
        if o[0] == "setv" and r.random() < 0.8:
            v = o[2]
            v2 = (v + r.choice([1, 2, -1])) if isinstance(v, int) and not isinstance(v, bool) else \
                (round(v + r.choice([0.5, 1.0, -2.0]), 3) if isinstance(v, float) else v)
            rep.append(("setv", o[1], v2) + tuple(o[3:]))
    out = ops[:a] + [("freeze",)] + ops[a:b] + [("unfreeze",)] + ops[b:c] + [("freeze",)] + rep + ops[c:d] + [("unfreeze",)] + ops[d:]
    return out


# ---------------------------------------------------------------------------
# C01 / C02: contents and execution trace after every assignment
# ---------------------------------------------------------------------------
class C01:
    prop = "C01"

    @staticmethod
    def generate(ctx, run):
        if run % 40 == 7:
            return gen_chain_case(ctx, run, "C01")      # 2.5 % of the runs: chains of 1000+ dependants
        if run % 200 == 13:
            return gen_collide_case(ctx, run, "C01")    # 0.5 %: two task ids with colliding hashes
        return gen_history_case(ctx, run, "C01", frozen_windows=True)

    @staticmethod
    def execute(ctx, case, prop="C01", check_trace=False, check_contents=True):
        if "chain" in case:
            return exec_chain(ctx, case, prop)
        if "cyclic" in case:
            return exec_cyclic(ctx, case, prop)
        if "collide" in case:
            return exec_collide(ctx, case, prop)
        if "subscript" in case:
            return exec_subscript(ctx, case, prop)
        spec = Spec.from_json(case["spec"])
        cfg = case["cfg"]
        ex = Exec(ctx.xd, spec, cfg["g_restricted"], cfg["salt"])
        nontrivial = False
        events = []
        inter = []
        i = -1
        try:
            frozen = False
            pending_fault = None
            for i, op in enumerate(case["ops"]):
                if op[0] in ("freeze", "unfreeze"):
                    frozen = op[0] == "freeze"
                    (ex.world.mgr.freeze_tree if frozen else ex.world.mgr.unfreeze_tree)()
                    ex.count("fault:freeze" if frozen else "unfreeze")
                    continue
                if op[0] == "faulty":
                    pending_fault = (op[1], op[2])
                    continue
                if op[0] == "regk" and cfg.get("ft_via_ref"):
                    continue            # see gen_history_case: no linear knobs beside actions that assign through references
                if frozen:
                    if classify_frozen(ex.model, op) != "plain":
                        continue            # would change the graph: C17's business
                    ex.count("plain_assignments_while_frozen")
                if pending_fault is not None and op[0] in ("setv", "sete"):
                    fk, fn = pending_fault
                    pending_fault = None
                    try:
                        model_step(ex.model.clone(), op, ex.g_restricted)
                        applicable = True
                    except ModelReject:
                        applicable = False
                    if applicable:
                        trf, excf = run_traced(lambda: ex.world.apply(op), {"kind": fk, "n": fn, "fired": False, "tag": fn, "exc": "plain"})
                        if isinstance(excf, SimStall):
                            raise excf
                        if excf is not None and excf is not _Ctx.fired:
                            ex.count("stopped_on_other_exception_in_faulted_attempt")
                            break
                        ex.count("fault:update_fails_then_repeated" if excf is not None else "update_repeated_without_fault")
                st = ex.step(op)
                if st is None:
                    continue
                events.append(len(st.trace))
                if st.exc is not None:
                    if st.info.g_cyclic_trig:
                        # a consumer that ran before its producer (KF-1) may also *raise* on the transient value
                        # (e.g. a computed list index that is momentarily out of range)
                        if prop != "C01":
                            ex.count("stopped_on_kf1_exception")
                            break
                        raise Violation(prop + ".exception.gcyclic", "%s raised %s: %s during an update whose triggered tasks are cyclic in the public task graph"
                                        % (op[0], type(st.exc).__name__, st.exc), exc=type(st.exc).__name__, g_cyclic_trig=True)
                    raise Violation(prop + ".exception", "%s raised %s: %s" % (op[0], type(st.exc).__name__, st.exc),
                                    exc=type(st.exc).__name__, g_cyclic=st.info.g_cyclic)
                if st.info.trig:
                    nontrivial = True
                    ex.count("updates_with_tasks")
                    ex.count("tasks_run_expected", len(st.info.trig))
                    if len(st.info.trig) >= 3:
                        ex.count("updates_ge3_tasks")
                    if st.info.g_cyclic_trig:
                        ex.count("updates_gcyclic")
                if check_trace:
                    r = ex.check_trace(st, prop)
                    if r is not None and r[2] >= 2:
                        inter.append((r[0], r[1]))
                elif st.exc is None:
                    # schedule accounting only (the trace oracle itself is C02's business)
                    try:
                        r = ex.check_trace(st, prop)
                        if r is not None and r[2] >= 2:
                            inter.append((r[0], r[1]))
                    except Violation:
                        pass
                if not check_contents:
                    # other properties' business (C01 / KF-1): do not continue on a diverged state
                    try:
                        ex.check_contents(st.info.values, "", st.info, prop)
                    except Violation:
                        ex.count("stopped_on_content_mismatch")
                        break
                else:
                    ex.check_contents(st.info.values, "after op %d (%s %s)" % (i, op[0], path_str(op[1]) if isinstance(op[1], tuple) else op[1]),
                                      st.info, prop)
        except Violation as v:
            return _outcome(ex, v, i, nontrivial, {"inter": inter})
        return _outcome(ex, None, None, nontrivial, {"inter": inter}, digest(events))


class C02(C01):
    prop = "C02"

    @staticmethod
    def generate(ctx, run):
        if run % 10 == 3:
            return gen_cyclic_case(ctx, run, "C02")     # 10 % of the runs: mutually dependent function tasks
        if run % 80 == 9:
            return gen_chain_case(ctx, run, "C02")
        if run % 200 == 29:
            return gen_collide_case(ctx, run, "C02")    # two triggered task ids with colliding hashes: both run
        if run % 100 == 41:
            return gen_subscript_case(ctx, run, "C02")  # an assignment made through a reference-valued subscript
        return gen_history_case(ctx, run, "C02", frozen_windows=True)

    @staticmethod
    def execute(ctx, case):
        return C01.execute(ctx, case, prop="C02", check_trace=True, check_contents=False)


DRIVERS = {"C01": C01, "C02": C02}


# ---------------------------------------------------------------------------
# C03: history independence (refinement against a freshly built manager)
# ---------------------------------------------------------------------------
from . import oracles as O
from ..containers import FUNCS as FUNCS_REG
from ..containers import SLOTS as SLOTS_REG
from .model import ast_paths
from ..containers import raw_set
from .world import World, run_traced


class C03:
    prop = "C03"
    WEIGHTS = {"unreg": 14, "load": 6, "refresh": 3, "cleanup": 1, "verify": 1, "regf": 6, "unregf": 5,
               "regk": 3, "unregk": 3, "setc": 3, "inpl": 6}

    @staticmethod
    def generate(ctx, run):
        rc = rng_for(ctx.seed, "C03", run, "cfg")
        cfg = swarm_config(rc, ctx.tier, weights_over=dict(C03.WEIGHTS))
        if cfg["max_depth"] == 1 and rc.random() < 0.6:
            cfg["max_depth"] = rc.choice([2, 3])      # nested targets are where the indices get interesting
        spec = gen_spec(rng_for(ctx.seed, "C03", run, "spec"), cfg)
        hg = HistoryGen(rng_for(ctx.seed, "C03", run, "ops"), cfg, spec)
        ops = hg.history()
        # assignments of an expression that cannot be evaluated (it reads a key that does not exist): the call raises;
        # whatever survives of it, the next plain assignment to the same location must leave no trace of it
        rm = rng_for(ctx.seed, "C03", run, "failed")
        if rm.random() < 0.5:
            ops = insert_markers(rm, ops, lambda r: ("failsete", r.randrange(1000), r.randrange(1000), r.choice([True, False]),
                                                     round(r.uniform(-5, 5), 2), r.randint(-5, 5), r.choice(["item", "mgr"])), 1, 2)
        return {"cfg": cfg, "spec": spec.to_json(), "ops": ops}

    @staticmethod
    def execute(ctx, case):
        prop = "C03"
        xd = ctx.xd
        spec = Spec.from_json(case["spec"])
        cfg = case["cfg"]
        ex = Exec(xd, spec, cfg["g_restricted"], cfg["salt"])
        nontrivial = False
        i = -1
        removed = 0
        try:
            twin = O.build_fresh_twin(World, xd, spec, ex.model, ex.world, cfg["salt"])
            for i, op in enumerate(case["ops"]):
                if op[0] == "failsete":
                    m = ex.model
                    free = [l for l in spec.leaves if l not in m.ft_target and l not in m.kn_target]
                    if not free:
                        continue
                    tgt = free[op[1] % len(free)]
                    other = spec.leaves[op[2] % len(spec.leaves)]
                    follow = ("setv", tgt, op[4] if spec.leaf_type[tgt] == "f" else op[5], op[6])
                    try:
                        model_step(ex.model.clone(), follow, ex.g_restricted)
                    except ModelReject:
                        continue
                    missing = (tgt[0], (step_kind(spec.root_mode[tgt[0]][1]), "nokey%s" % cfg["salt"]))
                    bad = ("bin", "+", ("ref", other), ("ref", missing)) if op[3] else ("bin", "*", ("ref", missing), ("ref", other))
                    mgr = ex.world.mgr
                    tr, exc = run_traced(lambda: ex.world._assign(tgt, ex.world.build(bad), op[6]))
                    if isinstance(exc, SimStall):
                        raise exc
                    where = "after the failed assignment of %s to %s before op %d" % (ex.world.build(bad), path_str(tgt), i)
                    if exc is None:
                        raise Violation(prop + ".harness", "%s: the assignment did not raise" % where)
                    ex.count("fault:assignment_of_unevaluable_expression")
                    d = O.diff_support(O.support(mgr), O.support_from_tasks(mgr.tasks.values()))
                    if d:
                        raise Violation(prop + ".index", "%s: index vs derivation from the registered tasks: %s" % (where, d))
                    tr, exc = run_traced(lambda: mgr.verify())
                    if exc is not None:
                        raise Violation(prop + ".verify", "%s: verify() raised %s: %s" % (where, type(exc).__name__, exc))
                    # the plain assignment that follows is an ordinary op of the history (for the fresh twin: the only one)
                    op = follow
                st = ex.step(op)
                if st is None:
                    continue
                where = "after op %d (%s)" % (i, op[0])
                # ---- (c) the same call on the fresh twin of the state before ----------
                tr2, exc2 = run_traced(lambda: twin.apply(op))
                if st.exc is not None and st.info.g_cyclic_trig:
                    ex.count("stopped_on_kf1_exception")
                    break
                if st.exc is not None:
                    raise Violation(prop + ".exception", "%s: %s raised %s: %s (fresh manager: %s)"
                                    % (where, op[0], type(st.exc).__name__, st.exc,
                                       "no exception" if exc2 is None else type(exc2).__name__),
                                    exc=type(st.exc).__name__)
                if exc2 is not None:
                    raise Violation(prop + ".twin_exception", "%s: the fresh manager raised %s: %s where the subject did not"
                                    % (where, type(exc2).__name__, exc2))
                if op[0] in ("unreg", "unregf", "unregk", "load") or (op[0] in ("setv", "sete", "inpl") and st.pre_defined):
                    removed += 1
                if st.info.start is not None:
                    _, e1, _ = ex.executed_tasks(st)
                    _, e2, _ = ex.executed_tasks(st, world=twin, trace=tr2)
                    if set(e1) != set(e2):
                        d = sorted(set(e1) ^ set(e2), key=repr)[0]
                        raise Violation(prop + ".triggered_set", "%s: task %s ran in %s only" %
                                        (where, d, "the subject" if d in e1 else "the fresh manager"),
                                        g_cyclic_trig=st.info.g_cyclic_trig)
                    if st.info.g_cyclic_trig:
                        ex.count("updates_gcyclic")
                        try:
                            ex.check_contents(st.info.values, where, st.info, prop)
                        except Violation:
                            # KF-1 territory (C01's known finding): the state has legitimately diverged
                            # from the model, nothing further can be attributed to C03
                            ex.count("stopped_on_kf1_divergence")
                            break
                    else:
                        c1, c2 = ex.world.contents(), twin.contents()
                        for loc in spec.leaves:
                            if not same(c1[loc], c2[loc]):
                                raise Violation(prop + ".follow_up", "%s: %s holds %r, in the fresh manager %r"
                                                % (where, path_str(loc), c1[loc], c2[loc]))
                        ex.check_contents(st.info.values, where, st.info, prop)
                    if st.info.trig:
                        ex.count("updates_with_tasks")
                # ---- (a) index supports ----------------------------------------------
                mgr = ex.world.mgr
                if ex.model.order:
                    nontrivial = nontrivial or removed > 0
                real_decl = O.real_decl_strings(mgr)
                exp_decl = O.expected_decl_strings(ex.model)
                if real_decl != exp_decl:
                    k = sorted(set(real_decl) ^ set(exp_decl)) or [k for k in real_decl if real_decl[k] != exp_decl[k]]
                    raise Violation(prop + ".tasks", "%s: registered tasks differ from the surviving definitions at %s: real %s, expected %s"
                                    % (where, k[0], real_decl.get(k[0]), exp_decl.get(k[0])))
                sup = O.support(mgr)
                d = O.diff_support(sup, O.support_from_tasks(mgr.tasks.values()))
                if d:
                    raise Violation(prop + ".index", "%s: index vs derivation from the registered tasks: %s" % (where, d))
                # a fresh twin of the state after (it is also the twin 'before' of the next op)
                if st.info.g_cyclic_trig:
                    # contents may legitimately differ (KF-1): the twin is rebuilt from the subject's contents
                    pass
                twin = O.build_fresh_twin(World, xd, spec, ex.model, ex.world, cfg["salt"])
                d = O.diff_support(sup, O.support(twin.mgr))
                if d:
                    raise Violation(prop + ".index_fresh", "%s: index vs fresh manager: %s" % (where, d))
                # ---- (b) self-check and queries -----------------------------------------
                tr, exc = run_traced(lambda: mgr.verify())
                if exc is not None:
                    raise Violation(prop + ".verify", "%s: verify() raised %s: %s" % (where, type(exc).__name__, exc))
                q1 = O.queries(ex.world)
                q2 = O.queries(twin)
                if q1 != q2:
                    for k in q1:
                        for q in q1[k]:
                            if q1[k][q] != q2[k][q]:
                                raise Violation(prop + ".query", "%s: %s of %s: subject %s, fresh manager %s"
                                                % (where, q, k, q1[k][q], q2[k][q]))
                # ---- (d) clone() agrees ---------------------------------------------------
                if i % 3 == 0:
                    d = O.diff_support(O.support(mgr), O.support(mgr.clone()))
                    if d:
                        raise Violation(prop + ".clone", "%s: clone() differs: %s" % (where, d))
        except Violation as v:
            return _outcome(ex, v, i, nontrivial)
        return _outcome(ex, None, None, nontrivial, None, digest(sorted(ex.stats.items())))


DRIVERS["C03"] = C03


# ---------------------------------------------------------------------------
# C18: crash at every container access / callback of an update, then recover
# ---------------------------------------------------------------------------
from ..containers import _Ctx, InjectedFault, SimStall, FAULT_NAMES
from .model import model_step, ModelReject


def replay_prefix(xd, spec, cfg, ops, upto):
    """A fresh Exec with ops[:upto] applied fault-free (same process, same names -> same schedule)."""
    ex = Exec(xd, spec, cfg["g_restricted"], cfg["salt"])
    for op in ops[:upto]:
        st = ex.step(op)
        if st is not None and st.exc is not None:
            raise Violation("C18.prefix_exception", "fault-free prefix op %s raised %s: %s" % (op[0], type(st.exc).__name__, st.exc))
    return ex


def canonical_assignment(model, op):
    """inpl -> the equivalent setv / sete (so that repeating it is idempotent)."""
    if op[0] != "inpl":
        return op
    _, path, o, operand = op[:4]
    from .model import PYOPS
    if path in model.defs:
        return ("sete", path, ("bin", o, model.defs[path], operand), "item")
    if operand[0] == "lit":
        return ("setv", path, PYOPS[o](model.val[path], operand[1]), "item")
    return ("sete", path, ("bin", o, ("lit", model.val[path]), operand), "item")


class C18:
    prop = "C18"
    shrink_parts = ("crash", "ops")
    MAX_K = 24

    @staticmethod
    def generate(ctx, run):
        rc = rng_for(ctx.seed, "C18", run, "cfg")
        knob_pop = rc.random() < 0.25
        wo = {"unreg": 3, "regf": 8, "unregf": 1, "setc": 4, "inpl": 6,
              "regk": (8 if knob_pop else 0), "unregk": (1 if knob_pop else 0)}
        cfg = swarm_config(rc, ctx.tier, weights_over=wo, g_restricted=True)
        cfg["n_ops"] = min(cfg["n_ops"], 30)
        spec = gen_spec(rng_for(ctx.seed, "C18", run, "spec"), cfg)
        hg = HistoryGen(rng_for(ctx.seed, "C18", run, "ops"), cfg, spec)
        ops = hg.history()
        # crash points: propagating assignments, biased to the ones with many triggered tasks
        m = Model(spec)
        cand = []
        for i, op in enumerate(ops):
            try:
                info = model_step(m, op, True)
            except ModelReject:
                continue
            if op[0] in ("setv", "sete", "inpl", "setc") and info.trig:
                cand.append((i, len(info.trig)))
        rp = rng_for(ctx.seed, "C18", run, "crash")
        crash = []
        if cand:
            cand.sort(key=lambda x: (-x[1], x[0]))
            crash.append(cand[0][0])
            rest = [c[0] for c in cand[1:]]
            rp.shuffle(rest)
            crash.extend(rest[:2])
        return {"cfg": cfg, "spec": spec.to_json(), "ops": ops, "crash": sorted(crash), "double": rp.random() < 0.4}

    @staticmethod
    def execute(ctx, case):
        prop = "C18"
        xd = ctx.xd
        spec = Spec.from_json(case["spec"])
        cfg = case["cfg"]
        ops = case["ops"]
        stats = {}
        nfaults = 0

        def count(k, n=1):
            stats[k] = stats.get(k, 0) + n

        ci = None
        try:
            for ci in case["crash"]:
                if ci >= len(ops):
                    continue
                # ---- reference (fault-free) run of the update --------------------------------
                ref = replay_prefix(xd, spec, cfg, ops, ci)
                try:
                    op = canonical_assignment(ref.model, ops[ci])
                except Exception:
                    continue
                strict = (op[0] == "setc") or (op[0] == "setv" and op[1] not in ref.model.defs and op[1] not in ref.model.ft_target)
                st = ref.step(op)
                if st is None or st.exc is not None or not st.info.trig:
                    continue
                try:
                    ref.check_contents(st.info.values, "fault-free reference run of op %d" % ci, st.info, prop)
                except Violation:
                    continue        # C01's business
                W = C18._norm(ref.world, st.trace)
                post = ref.world.contents()
                has_knob = any(t[0] == "k" for t in st.info.trig)
                count("updates_crashed")
                if has_knob:
                    count("updates_with_linear_knob")
                for kind in ("w", "r", "act", "fn"):
                    pos = [j for j, ev in enumerate(W) if ev[0] == kind]
                    ks = list(range(len(pos)))
                    if len(ks) > C18.MAX_K:
                        step = len(ks) / float(C18.MAX_K)
                        ks = sorted(set(int(x * step) for x in range(C18.MAX_K)))
                    for k in ks:
                        sub = replay_prefix(xd, spec, cfg, ops, ci)
                        before = O.snapshot(sub.world)
                        where = "op %d (%s %s) with fault %s#%d" % (ci, op[0], path_str(op[1]), kind, k)
                        etype = FAULT_NAMES[(k + ci + len(kind)) % len(FAULT_NAMES)]
                        count("fault_type:" + etype)
                        noargs = (k * 3 + ci) % 4 == 1
                        if noargs:
                            count("fault_without_arguments")
                        fst = sub.step(op, fault={"kind": kind, "n": k, "fired": False, "tag": k, "exc": etype, "noargs": noargs})
                        nfaults += 1
                        count("events", len(fst.trace) if fst is not None else 0)
                        count("fault:%s_raises" % {"w": "write", "r": "read", "act": "action", "fn": "called_function"}[kind])
                        defs_ok = (before["defs"], O.definitions(ref.world.mgr))
                        C18._check_faulted(sub, fst, W, pos[k], kind, before, strict, where, has_knob, defs_ok)
                        # optionally a second faulty attempt in a row
                        if case.get("double") and len(ks) > 1:
                            k2 = ks[(ks.index(k) * 7 + 3) % len(ks)]
                            tr, exc = run_traced(lambda: sub.world.apply(op), {"kind": kind, "n": k2, "fired": False, "tag": k2,
                                                                                 "exc": ("zerodiv", "plain", "key", "index", "stop", "attr")[k2 % 6]})
                            nfaults += 1
                            count("fault:second_in_a_row")
                            fst2 = type(fst)()
                            fst2.op, fst2.info, fst2.trace, fst2.exc = op, fst.info, tr, exc
                            mid = O.snapshot(sub.world) if strict else None
                            C18._check_faulted(sub, fst2, W, pos[k2], kind, before if strict else None, strict,
                                               where + " then #%d" % k2, has_knob, defs_ok)
                        # ---- fault-free repeat ---------------------------------------------------
                        tr, exc = run_traced(lambda: sub.world.apply(op))
                        if exc is not None:
                            raise Violation(prop + ".repeat_exception", "%s: the fault-free repeat raised %s: %s"
                                            % (where, type(exc).__name__, exc), knob=has_knob)
                        got = sub.world.contents()
                        for loc in spec.leaves:
                            if not same(got[loc], st.info.values[loc]) or not same(got[loc], post[loc]):
                                raise Violation(prop + (".recover_knob" if has_knob else ".recover"),
                                                "%s: after the fault-free repeat %s holds %r, expected %r"
                                                % (where, path_str(loc), got[loc], st.info.values[loc]), knob=has_knob)
                        if C18._norm(sub.world, tr) != W and not has_knob:
                            raise Violation(prop + ".repeat_trace", "%s: the repeat did not run the same accesses as a fault-free update" % where)
                        d = O.diff_support(O.support(sub.world.mgr), O.support(ref.world.mgr))
                        if d or O.definitions(sub.world.mgr) != O.definitions(ref.world.mgr):
                            raise Violation(prop + ".repeat_state", "%s: definitions/indices after the repeat differ from a fault-free update: %s" % (where, d))
        except Violation as v:
            return {"violation": dict(v.to_json(), step=ci), "nontrivial": nfaults > 0, "stats": stats,
                    "extra": {"counters": {"faulted_executions": nfaults}}, "trace_digest": None}
        return {"violation": None, "nontrivial": nfaults > 0, "stats": stats,
                "extra": {"counters": {"faulted_executions": nfaults}}, "trace_digest": digest(sorted(stats.items()))}

    @staticmethod
    def _norm(world, trace):
        """Events with the container's serial number replaced by its path (serials differ between re-executions)."""
        return [(ev[0], world.sidpath.get(ev[1], ev[1]), ev[2]) for ev in trace]

    @staticmethod
    def _check_faulted(sub, fst, W, j, kind, before, strict, where, has_knob, defs_ok=None):
        prop = "C18"
        if fst is None:
            raise Violation(prop + ".harness", "%s: model rejected the op on replay" % where)
        exc = fst.exc
        if exc is None:
            raise Violation(prop + ".swallowed", "%s: the injected failure did not reach the caller (call returned normally)" % where)
        if exc is not _Ctx.fired:
            raise Violation(prop + ".other_exception", "%s: caller got %s: %s instead of the injected failure"
                            % (where, type(exc).__name__, exc))
        tr = C18._norm(sub.world, fst.trace)
        exp = list(W[:j]) + [("X" + kind,) + tuple(W[j][1:])]
        if [tuple(e) for e in tr] != [tuple(e) for e in exp]:
            n = 0
            while n < min(len(tr), len(exp)) and tuple(tr[n]) == tuple(exp[n]):
                n += 1
            raise Violation(prop + ".prefix", "%s: accesses after the failure or a different schedule: event %d is %s, expected %s (trace length %d, expected %d)"
                            % (where, n, tr[n] if n < len(tr) else None, exp[n] if n < len(exp) else None, len(tr), len(exp)))
        mgr = sub.world.mgr
        t2, e2 = run_traced(lambda: mgr.verify())
        if e2 is not None:
            raise Violation(prop + ".verify", "%s: verify() fails after the failed update: %s" % (where, e2))
        d = O.diff_support(O.support(mgr), O.support_from_tasks(mgr.tasks.values()))
        if d:
            raise Violation(prop + ".index", "%s: indices inconsistent with the registered tasks after the failed update: %s" % (where, d))
        if defs_ok is not None:
            # a failed update may or may not have installed the new definition, but nothing else: the definitions are
            # those from before the call or those a fault-free call leaves
            dd = O.definitions(mgr)
            if dd != defs_ok[0] and dd != defs_ok[1]:
                s0, s1, sd = set(defs_ok[0]), set(defs_ok[1]), set(dd)
                raise Violation(prop + ".definitions", "%s: after the failed update the definitions are neither the old nor the new ones: "
                                "lost %s, unexpected %s" % (where, sorted((s0 & s1) - sd)[:2] or sorted(s1 - sd)[:2], sorted(sd - s0 - s1)[:2]))
        if strict and before is not None:
            after = O.snapshot(sub.world)
            a = dict(after)
            b = dict(before)
            a.pop("contents")
            b.pop("contents")
            a["contents"] = b["contents"] = {}
            d = O.diff_snapshot(b, a, same)
            if d:
                raise Violation(prop + ".state_changed", "%s: %s" % (where, d))


DRIVERS["C18"] = C18


# ---------------------------------------------------------------------------
# C17: freeze at every position; every mutating entry point must fail atomically
# ---------------------------------------------------------------------------
def classify_frozen(model, op):
    """'mutator' (would add/replace/remove a task -> must raise ValueError), 'plain' (value assignment that
    only propagates), 'neutral' (changes nothing), or None when the op is not applicable in this state."""
    k = op[0]
    if k in ("refresh", "cleanup", "verify", "clonechk"):
        return "neutral"
    try:
        model_step(model.clone(), op, False)
    except ModelReject:
        return None
    if k == "setv":
        # over an expression, or over the reference a function task is registered under: removes that task
        return "mutator" if (op[1] in model.defs or op[1] in model.ft_target) else "plain"
    if k in ("setc", "setfunc"):
        return "plain"
    if k == "inpl":
        if op[1] in model.defs or op[1] in model.ft_target:
            return "mutator"
        return "plain" if op[3][0] == "lit" else "mutator"
    if k in ("load", "copyfrom"):
        changes = any((p not in model.defs) or op[2] for p, _ in op[1])
        # nothing to register: the call only re-runs every task (a linear knob then rewrites its targets
        # as floats), which the model follows like any other propagation
        return "mutator" if changes else "plain"
    return "mutator"


def _noop():
    return None


class C17:
    prop = "C17"
    shrink_parts = ("freeze", "ops")

    @staticmethod
    def generate(ctx, run):
        rc = rng_for(ctx.seed, "C17", run, "cfg")
        cfg = swarm_config(rc, ctx.tier, g_restricted=True)
        cfg["n_ops"] = min(cfg["n_ops"], 24 if ctx.tier == "quick" else 40)
        spec = gen_spec(rng_for(ctx.seed, "C17", run, "spec"), cfg)
        hg = HistoryGen(rng_for(ctx.seed, "C17", run, "ops"), cfg, spec)
        ra = rng_for(ctx.seed, "C17", run, "attempts")
        aw = dict(cfg["weights"])
        aw.update({"sete": 30, "setv": 30, "inpl": 15, "unreg": 15, "regf": 8, "unregf": 8, "regk": 6, "unregk": 6,
                   "load": 10, "setc": 4, "refresh": 0, "cleanup": 0, "verify": 0})
        ops = []
        freeze = []
        hg.eg.no_eqne = True       # load/copy_expr_from attempts go through printed text (KF-2)

        def attempts():
            keep = hg.cfg["weights"]
            hg.cfg["weights"] = aw
            out = []
            for _ in range(5):
                a = hg.propose()
                if a is not None and classify_frozen(hg.model, a) is not None:
                    out.append(a)
            hg.cfg["weights"] = keep
            # a copy_expr_from attempt built from the current definitions and one new one
            free = [l for l in spec.leaves if l not in hg.model.ft_target and l not in hg.model.kn_target]
            if free:
                p = ra.choice(free)
                a = ("copyfrom", ((p, hg.eg.gen(spec.leaf_type[p], 1, True)),), ra.random() < 0.7)
                if classify_frozen(hg.model, a) is not None:
                    out.append(a)
                    if ra.random() < 0.5:
                        # the same through copy_expr_from with a label rebound to another container of the destination
                        out.append(("copybind", a[1], ra.randrange(len(spec.roots))))
            if ra.random() < 0.5:
                # registering a task object directly (here: one that is registered already) is a replacement too
                out.append(("rereg", ra.randrange(64)))
            if ra.random() < 0.4:
                # a task id is any hashable: a tuple, say (registering a new task under it / unregistering one that never existed)
                out.append(("tupleid", ra.randrange(1000), ra.choice(["register", "unregister"])))
            if ra.random() < 0.5:
                # an expression that cannot even be evaluated right now (it reads a key that does not exist): still a ValueError
                out.append(("failsete", ra.randrange(1000), ra.randrange(1000), ra.random() < 0.5, ra.choice(["item", "mgr"])))
            # re-assigning the value a location already holds is still an assignment: its dependants are run again
            plain = [l for l in free if l not in hg.model.defs]
            if plain:
                p = ra.choice(plain)
                out.append(("setv", p, hg.model.val[p], ra.choice(["item", "mgr"])))
            out.append(("refresh",))
            out.append((ra.choice(["verify", "cleanup", "clonechk"]),))
            ra.shuffle(out)
            return out

        for i in range(cfg["n_ops"] + 1):
            freeze.append((i, tuple(attempts())))
            if i == cfg["n_ops"]:
                break
            got = hg.history(n_ops=1)
            if not got:
                break
            ops.extend(got)
        freeze = [f for f in freeze if f[0] <= len(ops)]
        return {"cfg": cfg, "spec": spec.to_json(), "ops": ops, "freeze": freeze}

    @staticmethod
    def execute(ctx, case):
        prop = "C17"
        xd = ctx.xd
        spec = Spec.from_json(case["spec"])
        cfg = case["cfg"]
        ops = case["ops"]
        stats = {}
        n_mut = 0

        def count(k, n=1):
            stats[k] = stats.get(k, 0) + n

        p = None
        try:
            for p, atts in case["freeze"]:
                if p > len(ops):
                    continue
                ex = Exec(xd, spec, True, cfg["salt"])
                diverged = False
                for op in ops[:p]:
                    st = ex.step(op)
                    if st is not None and st.exc is not None:
                        diverged = True
                        break
                if diverged:
                    continue
                w = ex.world
                mgr = w.mgr
                # freeze/unfreeze are switches, not a counter: a stray unfreeze before, or freezing twice, changes nothing
                variant = (p * 7 + len(atts)) % 10
                if variant in (0, 1, 2):
                    mgr.unfreeze_tree()
                    count("stray_unfreeze_before_freeze")
                mgr.freeze_tree()
                count("fault:freeze")
                if variant in (2, 3):
                    mgr.freeze_tree()
                    count("double_freeze")
                count("freeze_points")
                for a in atts:
                    special = None
                    if a[0] == "rereg":
                        tids = sorted(mgr.tasks, key=str)
                        if not tids:
                            continue
                        cls, special = "mutator", (lambda t=mgr.tasks[tids[a[1] % len(tids)]]: mgr.register(t))
                    elif a[0] == "tupleid":
                        leaf = spec.leaves[a[1] % len(spec.leaves)]
                        tidt = ("obs%s" % cfg["salt"], a[1] % 7)
                        if a[2] == "register":
                            tk = xd.tasks.FunctionTask(tidt, _noop, set(), {w.ref(leaf)})
                            cls, special = "mutator", (lambda tk=tk: mgr.register(tk))
                        else:
                            cls, special = "mutator", (lambda tidt=tidt: mgr.unregister(tidt))
                    elif a[0] == "failsete":
                        free = [l for l in spec.leaves if l not in ex.model.ft_target and l not in ex.model.kn_target]
                        if not free:
                            continue
                        tgt = free[a[1] % len(free)]
                        other = spec.leaves[a[2] % len(spec.leaves)]
                        missing = (tgt[0], (step_kind(spec.root_mode[tgt[0]][1]), "nokey%s" % cfg["salt"]))
                        bad = ("bin", "+", ("ref", other), ("ref", missing)) if a[3] else ("bin", "*", ("ref", missing), ("ref", other))
                        cls, special = "mutator", (lambda tgt=tgt, bad=bad, st=a[4]: w._assign(tgt, w.build(bad), st))
                    elif a[0] == "copybind":
                        src = World(spec, xd, cfg["salt"])
                        for p_, a_ in a[1]:
                            src.mgr.register(xd.tasks.ExprTask(src.ref(tuple(p_)), src.build(a_)))
                        lab = a[1][0][0][0]
                        lab2 = spec.roots[a[2] % len(spec.roots)][0]
                        if lab not in src.mgr.containers or lab2 not in mgr.containers:
                            continue
                        cls, special = "mutator", (lambda: mgr.copy_expr_from(src.mgr, lab, bindings={lab: mgr.containers[lab2]}, overwrite=True))
                    else:
                        cls = classify_frozen(ex.model, a)
                    if cls is None:
                        continue
                    where = "frozen after %d ops, %s %s" % (p, a[0], path_str(a[1]) if len(a) > 1 and isinstance(a[1], tuple) and a[1] and isinstance(a[1][0], str) else "")
                    if cls == "plain":
                        st = ex.step(a)
                        if st is None:
                            continue
                        count("plain_assignments_while_frozen")
                        if st.exc is not None:
                            raise Violation(prop + ".plain_raises", "%s: a plain value assignment raised %s: %s"
                                            % (where, type(st.exc).__name__, st.exc))
                        if st.info.trig:
                            count("plain_with_dependants")
                        ex.check_contents(st.info.values, where, st.info, prop)
                        # "still updates all their dependants": the triggered tasks really run (exactly once, in order)
                        ex.check_trace(st, prop)
                        continue
                    before = O.snapshot(w)
                    if special is not None:
                        tr, exc = run_traced(special)
                    elif a[0] == "clonechk":
                        def clone_and_edit():
                            # a clone of a frozen manager is a manager of its own (not frozen): editing IT is legal and is none
                            # of the frozen one's business
                            twin = mgr.clone()
                            tids = sorted(twin.tasks, key=str)
                            if tids:
                                twin.unregister(tids[0])
                            twin.register(xd.tasks.FunctionTask(("probe", 1), _noop, set(), {w.ref(spec.leaves[0])}))
                        tr, exc = run_traced(clone_and_edit)
                    else:
                        tr, exc = run_traced(lambda: w.apply(a))
                    after = O.snapshot(w)
                    d = O.diff_snapshot(before, after, same)
                    if cls == "mutator":
                        n_mut += 1
                        count("mutator:" + a[0])
                        if exc is None:
                            raise Violation(prop + ".no_error", "%s: the call returned normally on a frozen manager%s"
                                            % (where, " and changed state: " + d if d else ""))
                        if not isinstance(exc, ValueError):
                            raise Violation(prop + ".wrong_error", "%s: raised %s: %s instead of ValueError"
                                            % (where, type(exc).__name__, exc))
                        if d:
                            raise Violation(prop + ".not_atomic", "%s: raised ValueError but %s" % (where, d))
                    else:
                        count("neutral:" + a[0])
                        if exc is not None:
                            raise Violation(prop + ".neutral_raises", "%s: %s raised %s: %s on a frozen manager (it changes no definition)"
                                            % (where, a[0], type(exc).__name__, exc))
                        if d:
                            raise Violation(prop + ".neutral_changes", "%s: %s changed state: %s" % (where, a[0], d))
                    if not mgr._tree_frozen:
                        raise Violation(prop + ".unfrozen", "%s: the manager is no longer frozen" % where)
                # ---- unfreeze and continue: must behave as if never frozen ---------------------
                mgr.unfreeze_tree()
                for j, op in enumerate(ops[p:]):
                    st = ex.step(op)
                    if st is None:
                        continue
                    where = "after unfreezing at %d, op %d (%s)" % (p, p + j, op[0])
                    if st.exc is not None:
                        raise Violation(prop + ".after_unfreeze_exception", "%s raised %s: %s" % (where, type(st.exc).__name__, st.exc))
                    ex.check_contents(st.info.values, where, st.info, prop)
                twin = O.build_fresh_twin(World, xd, spec, ex.model, w, cfg["salt"])
                d = O.diff_support(O.support(mgr), O.support(twin.mgr))
                if d or O.definitions(mgr) != O.definitions(twin.mgr):
                    raise Violation(prop + ".after_unfreeze_state", "after unfreezing at %d and finishing the history: %s" % (p, d or "definitions differ"))
        except Violation as v:
            return {"violation": dict(v.to_json(), step=p), "nontrivial": n_mut > 0, "stats": stats,
                    "extra": {"counters": {"mutating_calls_on_frozen": n_mut}}, "trace_digest": None}
        return {"violation": None, "nontrivial": n_mut > 0, "stats": stats,
                "extra": {"counters": {"mutating_calls_on_frozen": n_mut}}, "trace_digest": digest(sorted(stats.items()))}


DRIVERS["C17"] = C17


# ---------------------------------------------------------------------------
# C12: pickle "restart" at arbitrary points; identical behaviour and isolation of the copies
# ---------------------------------------------------------------------------
import pickle


def insert_markers(rng, ops, marker_fn, lo=1, hi=3):
    """Insert hi-lo+1.. markers at random positions of ops (never two in a row at position 0)."""
    ops = list(ops)
    n = rng.randint(lo, hi)
    for _ in range(n):
        pos = rng.randint(0, len(ops))
        ops.insert(pos, marker_fn(rng))
    return ops


def compare_expr_pairwise(prop, m1, m2, where, stats=None):
    """Definitions of two managers must agree: same targets; expression text, ==, hash, value, dependencies."""
    d1, d2 = O.definitions(m1), O.definitions(m2)
    if d1 != d2:
        s1, s2 = set(d1), set(d2)
        raise Violation(prop + ".definitions", "%s: definitions differ: only in the original %s, only in the copy %s"
                        % (where, sorted(s1 - s2)[:2], sorted(s2 - s1)[:2]))
    for tid, t in m1.tasks.items():
        if tid not in m2.tasks:
            raise Violation(prop + ".hash", "%s: task id %s of the original is not found among the copy's tasks (hash/eq disagree)" % (where, tid))
        t2 = m2.tasks[tid]
        e1, e2 = getattr(t, "expr", None), getattr(t2, "expr", None)
        if e1 is None:
            continue
        if not (e1 == e2) or hash(e1) != hash(e2):
            raise Violation(prop + ".expr_eq", "%s: expression of %s: == is %s, hashes %s" % (where, tid, e1 == e2, "equal" if hash(e1) == hash(e2) else "differ"))
        try:
            v1 = e1._get_value()
            err1 = None
        except Exception as ex:      # e.g. an index out of range for a computed key: both must agree
            v1, err1 = None, type(ex).__name__
        try:
            v2 = e2._get_value()
            err2 = None
        except Exception as ex:
            v2, err2 = None, type(ex).__name__
        if err1 != err2 or not same(v1, v2):
            raise Violation(prop + ".expr_value", "%s: expression of %s evaluates to %r (%s) in the original, %r (%s) in the copy"
                            % (where, tid, v1, err1, v2, err2))
        if sorted(str(x) for x in e1._get_dependencies()) != sorted(str(x) for x in e2._get_dependencies()):
            raise Violation(prop + ".expr_deps", "%s: dependencies of the expression of %s differ" % (where, tid))
        if sorted(str(x) for x in t.dependencies) != sorted(str(x) for x in t2.dependencies) or \
                sorted(str(x) for x in t.targets) != sorted(str(x) for x in t2.targets):
            raise Violation(prop + ".task_sets", "%s: targets/dependencies of task %s differ" % (where, tid))


class C12:
    prop = "C12"

    @staticmethod
    def generate(ctx, run):
        rc = rng_for(ctx.seed, "C12", run, "cfg")
        wo = {"regf": 0, "unregf": 0, "regk": 3 if rc.random() < 0.3 else 0, "unregk": 1, "sete": 45, "inpl": 10}
        cfg = swarm_config(rc, ctx.tier, weights_over=wo)
        cfg["g_restricted"] = rc.random() < 0.85
        cfg["nplit"] = rc.random() < 0.2
        cfg["npkeys"] = rc.random() < 0.4      # numpy integer / numpy string / bool item keys
        if cfg["npkeys"]:
            cfg["weights"]["load"] = 0
        # beside the simulated containers: one of the manager's own default containers (Manager.ref() without a
        # container) holding an element that points back to it - reference cycles are what real element trees look like
        cfg["attrdict_side"] = rc.random() < 0.3
        spec = gen_spec(rng_for(ctx.seed, "C12", run, "spec"), cfg)
        hg = HistoryGen(rng_for(ctx.seed, "C12", run, "ops"), cfg, spec)
        ops = hg.history()
        rm = rng_for(ctx.seed, "C12", run, "markers")
        ops = insert_markers(rm, ops, lambda r: ("pickle", r.choice(["mirror", "mirror", "iso_copy", "iso_orig"])), 1, 3)
        return {"cfg": cfg, "spec": spec.to_json(), "ops": ops}

    @staticmethod
    def execute(ctx, case):
        prop = "C12"
        xd = ctx.xd
        spec = Spec.from_json(case["spec"])
        cfg = case["cfg"]
        ex = Exec(xd, spec, cfg["g_restricted"], cfg["salt"])
        other = None          # (mode, world, snapshot or None)
        restarts = 0
        i = -1
        side = None
        if cfg.get("attrdict_side"):
            side = "z" + cfg["salt"]
            if h64("sideenv", cfg["salt"], cfg["n_leaves"]) % 2:
                # the same container obtained through Manager.newenv() (an environment proxy around the container and its
                # reference); assignments go through the proxy
                env = ex.world.mgr.newenv(side)
                env.top0 = 0.5
                zr = env._
                ex.count("default_container_through_newenv")
            else:
                zr = ex.world.mgr.ref(label=side)
            zr["top"] = 1.5
            zr["elem"] = type(zr._owner)()
            zr["elem"]["up"] = zr._owner
            zr["elem"]["len"] = zr["top"] * 2
            ex.count("default_container_with_cycle")
            # a second label, registered THROUGH a reference (mgr.ref(top['sub'], label)): it stands for whatever object sits
            # in that slot at the time of each access
            sublabel = "y" + cfg["salt"]
            zr["sub"] = type(zr._owner)()
            sr = ex.world.mgr.ref(zr["sub"], sublabel)
            sr["a"] = 1.0
            sr["b"] = sr["a"] * 2

        def check_sub(where, m, c, who):
            """a new object is put into the slot behind the second label, then an assignment is made through that label"""
            new = type(c)()
            new["a"], new["b"] = 3.0, 0.0
            m.containers[side]["sub"] = new
            m.containers[sublabel]["a"] = c["top"] + 4.0
            if c["sub"] is not new or not same(c["sub"]["a"], c["top"] + 4.0) or not same(c["sub"]["b"], (c["top"] + 4.0) * 2):
                raise Violation(prop + ".side_container", "%s: in %s, after a new container was assigned to %s['sub'] and %s['a'] = %r was "
                                "assigned through the label registered for that slot, the slot holds %r"
                                % (where, who, side, sublabel, c["top"] + 4.0, dict(c["sub"])))

        def check_side(where, m1, m2):
            c1, c2 = m1.containers[side]._owner, m2.containers[side]._owner
            if c1 is c2 or c1["elem"] is c2["elem"]:
                raise Violation(prop + ".shared", "%s: the manager's own container %s is shared with the original" % (where, side))
            if type(c2) is not type(c1) or sorted(c2) != sorted(c1) or c2["elem"]["up"] is not c2 or \
                    not same(c2["top"], c1["top"]) or not same(c2["elem"]["len"], c1["elem"]["len"]):
                raise Violation(prop + ".side_container", "%s: the manager's own container %s was not restored as it was" % (where, side))
            m2.containers[side]["top"] = c2["top"] + 1.0
            if not same(c2["elem"]["len"], (c1["top"] + 1.0) * 2) or not same(c1["elem"]["len"], c1["top"] * 2):
                raise Violation(prop + ".side_container", "%s: an assignment in the restored %s gives %r there and %r in the original"
                                % (where, side, c2["elem"]["len"], c1["elem"]["len"]))
            m1.containers[side]["top"] = c1["top"] + 1.0
            if c1["sub"] is c2["sub"]:
                raise Violation(prop + ".shared", "%s: the container behind label %s is shared with the original" % (where, sublabel))
            check_sub(where, m2, c2, "the restored copy")
            check_sub(where, m1, c1, "the original")
            ex.count("label_registered_through_a_reference_rebound")

        other_model = [None]      # model of the manager that is left alone in the isolation modes (state at the restart)

        def finish_other(where):
            nonlocal other
            if other is None:
                return
            mode, w2, snap = other
            if mode in ("iso_copy", "iso_orig"):
                d = O.diff_snapshot(snap, O.snapshot(w2), same)
                if d:
                    raise Violation(prop + ".isolation", "%s: assignments made to %s changed %s: %s"
                                    % (where, "the restored copy" if mode == "iso_copy" else "the original",
                                       "the original" if mode == "iso_copy" else "the restored copy", d))
                # both managers live on.  One more assignment to the same location in each of them, first in the one the history
                # went on with, then in the one that was left alone: the latter still answers from its OWN definitions (those
                # of the moment of the restart)
                om = other_model[0]
                if om is not None and ex.g_restricted:          # (G-acyclic runs: no KF-1 divergence to tell apart)
                    newreads = []
                    for p_, a_ in ex.model.defs.items():
                        if om.defs.get(p_) != a_:
                            newreads.extend(ex.model.static_reads_of_ast(a_))
                    cand = [l for l in (newreads + list(spec.leaves)) if not ex.model.is_derived(l) and not om.is_derived(l)]
                    if cand:
                        X = cand[0]
                        v1, v2 = (3, -4) if spec.leaf_type[X] == "i" else (1.25, -2.5)
                        st = ex.step(("setv", X, v1, "mgr"))
                        try:
                            info2 = model_step(om, ("setv", X, v2, "mgr"), ex.g_restricted)
                        except ModelReject:
                            info2 = None
                        if st is not None and st.exc is None and info2 is not None:
                            tr2, exc2 = run_traced(lambda: w2.apply(("setv", X, v2, "mgr")))
                            ex.count("assignments_to_the_manager_left_alone")
                            if isinstance(exc2, SimStall):
                                raise exc2
                            if exc2 is not None and not info2.g_cyclic_trig:
                                raise Violation(prop + ".other_exception", "%s: assigning %s in %s (left alone since the restart) raised %s: %s"
                                                % (where, path_str(X), "the original" if mode == "iso_copy" else "the restored copy",
                                                   type(exc2).__name__, exc2))
                            if exc2 is None and not info2.g_cyclic_trig:
                                c2 = w2.contents()
                                for loc in spec.leaves:
                                    if not same(c2[loc], info2.values[loc]):
                                        raise Violation(prop + ".other_contents", "%s: after assigning %s in %s (left alone since the restart) %s holds %r, "
                                                        "its own definitions give %r" % (where, path_str(X), "the original" if mode == "iso_copy" else "the restored copy",
                                                                                        path_str(loc), c2[loc], info2.values[loc]))
            other = None
            other_model[0] = None

        try:
            for i, op in enumerate(case["ops"]):
                if op[0] == "pickle":
                    where = "pickle restart before op %d" % i
                    finish_other(where)
                    w = ex.world
                    if (i + restarts) % 2 == 0:
                        # the string interface of a reference (ref._eval("name"), as used for knob definitions given as
                        # text) before the restart: looking something up must not make the manager unpicklable
                        lab0 = spec.roots[0][0]
                        txt = "1 + 2"
                        for ch in spec.children.get((lab0,), ()):
                            if isinstance(ch[-1][1], str) and ch[-1][1].isidentifier() and ch[-1][0] != "a":
                                txt = ch[-1][1]
                                break
                        tr, exc = run_traced(lambda: w.rootref[lab0]._eval(txt))
                        if exc is None:
                            ex.count("string_interface_used_before_restart")
                    try:
                        blob = pickle.dumps((w.mgr, w.rootobj, w.ftasks, w.knobs), protocol=pickle.HIGHEST_PROTOCOL)
                        mgr2, roots2, ft2, kn2 = pickle.loads(blob)
                    except SimStall:
                        raise
                    except BaseException as e:
                        if isinstance(e, (KeyboardInterrupt, SystemExit)):
                            raise
                        raise Violation(prop + ".pickle_fails", "%s: pickling/unpickling the manager raised %s: %s"
                                        % (where, type(e).__name__, str(e)[:200]), exc=type(e).__name__)
                    w2 = World.adopt(spec, xd, cfg["salt"], mgr2, roots2, ft2, kn2)
                    restarts += 1
                    ex.count("fault:restart_pickle")
                    if mgr2 is w.mgr or any(roots2[k] is w.rootobj[k] for k in roots2):
                        raise Violation(prop + ".shared", "%s: the restored manager shares objects with the original" % where)
                    compare_expr_pairwise(prop, w.mgr, mgr2, where)
                    if side is not None:
                        check_side(where, w.mgr, mgr2)
                    tr, exc = run_traced(lambda: mgr2.verify())
                    if exc is not None:
                        raise Violation(prop + ".verify", "%s: verify() of the restored manager raised %s: %s" % (where, type(exc).__name__, exc))
                    d = O.diff_support(O.support(w.mgr), O.support(mgr2))
                    if d:
                        raise Violation(prop + ".index", "%s: index supports differ: %s" % (where, d))
                    c1, c2 = w.contents(), w2.contents()
                    for loc in spec.leaves:
                        if not same(c1[loc], c2[loc]):
                            raise Violation(prop + ".contents", "%s: %s holds %r in the original, %r in the copy" % (where, path_str(loc), c1[loc], c2[loc]))
                    for name, t in w.knobs.items():
                        if not same(t.prev_value, w2.knobs[name].prev_value):
                            raise Violation(prop + ".knob_state", "%s: linear knob %s lost its state" % (where, name))
                    mode = op[1]
                    if mode == "mirror":
                        other = ("mirror", w2, None)
                    elif mode == "iso_copy":
                        # the history continues on the copy; the original must stay as it is
                        other = ("iso_copy", w, O.snapshot(w))
                        other_model[0] = ex.model.clone()
                        ex.world = w2
                    else:
                        other = ("iso_orig", w2, O.snapshot(w2))
                        other_model[0] = ex.model.clone()
                    continue
                st = ex.step(op)
                if st is None:
                    continue
                where = "op %d (%s) after %d pickle restart(s)" % (i, op[0], restarts)
                if st.exc is not None and st.info.g_cyclic_trig:
                    ex.count("stopped_on_kf1_exception")
                    break
                if st.exc is not None:
                    raise Violation(prop + ".exception", "%s raised %s: %s" % (where, type(st.exc).__name__, st.exc))
                if other is not None and other[0] == "mirror":
                    w2 = other[1]
                    tr2, exc2 = run_traced(lambda: w2.apply(op))
                    if exc2 is not None:
                        raise Violation(prop + ".copy_exception", "%s: raised %s: %s on the restored copy only" % (where, type(exc2).__name__, exc2))
                    c1, c2 = ex.world.contents(), w2.contents()
                    for loc in spec.leaves:
                        if not same(c1[loc], c2[loc]):
                            # two managers with different insertion histories are two schedules: under KF-1 they may differ
                            cls = prop + (".mirror.gcyclic" if st.info.g_cyclic_trig else ".mirror")
                            if st.info.g_cyclic_trig:
                                ex.count("kf1_mirror_divergence")
                                other = None
                                break
                            raise Violation(cls, "%s: %s holds %r in the original, %r in the restored copy" % (where, path_str(loc), c1[loc], c2[loc]))
                try:
                    ex.check_contents(st.info.values, where, st.info, prop)
                except Violation as v:
                    if v.cls.endswith(".gcyclic"):
                        ex.count("stopped_on_kf1_divergence")
                        break
                    raise
            finish_other("end of history")
        except Violation as v:
            return _outcome(ex, v, i, restarts > 0)
        return _outcome(ex, None, None, restarts > 0, None, digest(sorted(ex.stats.items())))


DRIVERS["C12"] = C12


# ---------------------------------------------------------------------------
# C11: printed expressions rebuild themselves; dump/load and copy_expr_from "restarts"
# ---------------------------------------------------------------------------
import json as _json
import math as _math


def text_roundtrip(prop, world, expr, where):
    """eval(str(expr)) in a namespace binding the container labels (and math) must rebuild an equal expression."""
    BaseRef = world.xd.refs.BaseRef
    txt = str(expr)
    ns = dict(world.mgr.containers)
    try:
        e2 = eval(txt, {"math": _math}, ns)
    except SimStall:
        raise
    except Exception as ex:
        raise Violation(prop + ".text_eval", "%s: the printed form %s does not evaluate: %s: %s" % (where, txt[:200], type(ex).__name__, ex))
    if not isinstance(e2, BaseRef):
        raise Violation(prop + ".text_type", "%s: the printed form %s evaluates to %r, not to an expression" % (where, txt[:200], e2))
    if str(e2) != txt or not (e2 == expr) or hash(e2) != hash(expr):
        raise Violation(prop + ".text_equal", "%s: %s re-evaluates to %s (== %s, hash %s)" % (where, txt[:200], str(e2)[:200], e2 == expr,
                                                                                               "equal" if hash(e2) == hash(expr) else "differs"))
    try:
        v1, err1 = expr._get_value(), None
    except Exception as ex:
        v1, err1 = None, type(ex).__name__
    try:
        v2, err2 = e2._get_value(), None
    except Exception as ex:
        v2, err2 = None, type(ex).__name__
    if err1 != err2 or not same(v1, v2):
        raise Violation(prop + ".text_value", "%s: %s has value %r (%s), its re-evaluated text %r (%s)" % (where, txt[:200], v1, err1, v2, err2))
    d1 = sorted(str(x) for x in (expr._get_dependencies() or ()))
    d2 = sorted(str(x) for x in (e2._get_dependencies() or ()))
    if d1 != d2:
        raise Violation(prop + ".text_deps", "%s: dependencies of %s differ after re-evaluation" % (where, txt[:200]))


def copy_contents(src_world, dst_world):
    for loc, v in src_world.contents().items():
        raw_set(dst_world._container(loc[:-1]), loc[-1][1], v)
    if "f" in src_world.rootobj and "f" in dst_world.rootobj:
        for slot, impl in src_world.rootobj["f"]._impl().items():
            object.__setattr__(dst_world.rootobj["f"], slot, FUNCS_REG[impl])


class C11:
    prop = "C11"

    @staticmethod
    def generate(ctx, run):
        rc = rng_for(ctx.seed, "C11", run, "cfg")
        wo = {"regf": 0, "unregf": 0, "regk": 0, "unregk": 0, "sete": 50, "inpl": 10, "load": 3}
        cfg = swarm_config(rc, ctx.tier, weights_over=wo)
        cfg["g_restricted"] = rc.random() < 0.85
        if rc.random() < 0.5:
            cfg["expr_depth"] = rc.choice([3, 4])
        # population split: deferred equality nodes (KF-2) only in ~12 % of the runs
        cfg["eqne_in_text"] = rc.random() < 0.12
        cfg["no_eqne"] = not cfg["eqne_in_text"]
        spec = gen_spec(rng_for(ctx.seed, "C11", run, "spec"), cfg)
        hg = HistoryGen(rng_for(ctx.seed, "C11", run, "ops"), cfg, spec)
        ops = hg.history()
        rm = rng_for(ctx.seed, "C11", run, "markers")
        dictroots = [i for i, r in enumerate(spec.roots) if r[2] == "dict"]

        def marker(r):
            k = r.random()
            if k < 0.5 or not dictroots:
                return ("dumpload", r.random() < 0.5)
            ri = r.choice(range(len(spec.roots)))
            wrap = (ri in dictroots or True) and r.random() < 0.7
            # a few definitions already present in the destination (kept when overwrite is False)
            label = spec.roots[ri][0]
            under = [l for l in spec.leaves if l[0] == label]
            pre = []
            for p in r.sample(under, min(len(under), r.randint(0, 2))):
                keep = hg.eg.rng
                hg.eg.rng = r
                try:
                    pre.append((p, hg.eg.gen(spec.leaf_type[p], 1, True)))
                finally:
                    hg.eg.rng = keep
            # last flag: one more definition is already present at a copied target - the copied one with an integer literal
            # -1 / -2 exchanged (two expressions that differ and hash alike)
            return ("copyexpr", ri, bool(wrap), r.random() < 0.6, tuple(pre), r.random() < 0.4)

        ops = insert_markers(rm, ops, marker, 1, 3)
        return {"cfg": cfg, "spec": spec.to_json(), "ops": ops}

    @staticmethod
    def execute(ctx, case):
        prop = "C11"
        xd = ctx.xd
        spec = Spec.from_json(case["spec"])
        cfg = case["cfg"]
        salt = cfg["salt"]
        ex = Exec(xd, spec, cfg["g_restricted"], salt)
        mirror = None
        restarts = 0
        i = -1
        try:
            for i, op in enumerate(case["ops"]):
                S = ex.world
                if op[0] == "dumpload":
                    where = "dump/load restart before op %d" % i
                    try:
                        dump = S.mgr.dump()
                        dump2 = _json.loads(_json.dumps(dump))
                    except Exception as e:
                        raise Violation(prop + ".dump_fails", "%s: dump() raised %s: %s" % (where, type(e).__name__, e))
                    D = World(spec, xd, salt, wrap=S.wrap)
                    copy_contents(S, D)
                    tr, exc = run_traced(lambda: D.mgr.load(dump2))
                    if isinstance(exc, SimStall):
                        raise exc
                    if exc is not None:
                        raise Violation(prop + ".load_fails", "%s: load(dump()) raised %s: %s" % (where, type(exc).__name__, str(exc)[:300]))
                    restarts += 1
                    ex.count("fault:restart_dump_load")
                    compare_expr_pairwise(prop, S.mgr, D.mgr, where)
                    if [tuple(x) for x in D.mgr.dump()] != [tuple(x) for x in dump]:
                        raise Violation(prop + ".dump_text", "%s: the loaded manager dumps differently from the original" % where)
                    d = O.diff_support(O.support(S.mgr), O.support(D.mgr))
                    if d:
                        raise Violation(prop + ".index", "%s: index supports of the loaded manager differ: %s" % (where, d))
                    if op[1]:
                        mirror = S            # the history continues on the loaded manager, the original mirrors it
                        ex.world = D
                    else:
                        mirror = D
                    continue
                if op[0] == "copyexpr":
                    _, ri, wrap, overwrite, pre = op[:5]
                    if S.wrap:
                        ex.count("copyexpr_skipped")      # one rebinding per history
                        continue
                    label = spec.roots[ri][0]
                    where = "copy_expr_from(%s%s, overwrite=%s) before op %d" % (label, " -> nested binding" if wrap else "", overwrite, i)
                    key = "holder%s" % salt
                    D = World(spec, xd, salt, wrap={label: key} if wrap else None)
                    copy_contents(S, D)
                    # model of the destination: current values, the pre-registered definitions, then the copied ones
                    mD = Model(spec)
                    mD.val = dict(S.contents())
                    mD.funcs = dict(ex.model.funcs)
                    if wrap:
                        # below a rebound label every task reads and writes the holder container: the public
                        # task graph is cyclic by construction (KF-1 territory), the model knows
                        mD.wrap = {label: key}
                    gr = cfg["g_restricted"] and not wrap
                    pairs = tuple((t[1], ex.model.defs[t[1]]) for t in ex.model.order if t[0] == "e" and t[1][0] == label)
                    if not pairs:
                        continue
                    if len(op) > 5 and op[5]:
                        for p_, a_ in pairs:
                            sw = swap_colliding_literal(a_)
                            if sw != a_ and p_ not in [x[0] for x in pre]:
                                pre = tuple(pre) + ((p_, sw),)
                                ex.count("copy_over_a_definition_with_the_same_hash")
                                break
                    try:
                        if pre:
                            model_step(mD, ("load", tuple(pre), True), gr)
                        info = model_step(mD, ("copyfrom", pairs, overwrite), gr)
                    except ModelReject:
                        ex.count("copyexpr_skipped")
                        continue
                    for p, a in pre:
                        D.mgr.register(xd.tasks.ExprTask(D.ref(p), D.build(a)))
                    # the docstring describes bindings keyed by the source container's reference; the label works too
                    bkey = S.mgr.containers[label] if h64("bindkey", salt, ri, overwrite, len(pre)) % 2 else label
                    bindings = {bkey: D.rootref[label][key]} if wrap else None
                    if wrap and bkey is not label:
                        ex.count("copy_bindings_keyed_by_reference")
                    shadow = []
                    if wrap:
                        # the destination may already hold definitions at label[k] - beside the holder - whose printed
                        # target equals the un-rebound text of a copied entry; they are other locations and stay as they are
                        outer = D.rootobj[label]
                        for p, a in pairs[:2]:
                            if len(p) == 2 and p[1][0] == "i" and isinstance(p[1][1], str) and p[1][1] != key:
                                dict.__setitem__(outer, p[1][1], 0.0)
                                tref = D.rootref[label][p[1][1]]
                                e = D.ref(p) * 2
                                D.mgr.register(xd.tasks.ExprTask(tref, e))
                                shadow.append((str(tref), str(e)))

                    def do_copy():
                        D.mgr.copy_expr_from(S.mgr, label, bindings=bindings, overwrite=overwrite)
                        D.mgr.run_tasks(D.mgr.find_tasks())
                    tr, exc = run_traced(do_copy)
                    if isinstance(exc, SimStall):
                        raise exc
                    if exc is not None and info.g_cyclic_trig:
                        # KF-1: below a rebound label the tasks are mutually ordered; one of them ran on a transient value
                        ex.count("stopped_on_kf1_exception")
                        break
                    if exc is not None:
                        raise Violation(prop + ".copy_fails", "%s raised %s: %s" % (where, type(exc).__name__, str(exc)[:300]))
                    restarts += 1
                    ex.count("fault:restart_copy_expr_from" + ("_rebound" if wrap else ""))
                    expected = sorted([(str(D.ref(p)), str(D.build(a))) for p, a in mD.defs.items()] + shadow)
                    got = O.definitions(D.mgr)
                    if got != expected:
                        s1, s2 = set(got), set(expected)
                        raise Violation(prop + ".copy_definitions", "%s: definitions of the destination: unexpected %s, missing %s"
                                        % (where, sorted(s1 - s2)[:2], sorted(s2 - s1)[:2]))
                    tr, exc = run_traced(lambda: D.mgr.verify())
                    if exc is not None:
                        raise Violation(prop + ".verify", "%s: verify() of the destination raised %s" % (where, exc))
                    ex.world = D
                    ex.model = mD
                    if wrap:
                        ex.g_restricted = False
                    mirror = None
                    if info.g_cyclic_trig:
                        ex.count("updates_gcyclic")
                    try:
                        ex.check_contents(info.values, where, info, prop)
                    except Violation as v:
                        if v.cls.endswith(".gcyclic"):
                            ex.count("stopped_on_kf1_divergence")
                            break
                        raise
                    continue
                # ---- ordinary op ------------------------------------------------------------------
                st = ex.step(op)
                if st is None:
                    continue
                where = "op %d (%s) after %d restart(s)" % (i, op[0], restarts)
                if st.exc is not None and st.info.g_cyclic_trig:
                    ex.count("stopped_on_kf1_exception")
                    break
                if st.exc is not None:
                    raise Violation(prop + ".exception", "%s raised %s: %s" % (where, type(st.exc).__name__, st.exc))
                if op[0] in ("sete", "inpl") and op[1] in ex.model.defs:
                    e = ex.world.ref(op[1])._expr
                    if e is not None:
                        ex.count("expressions_roundtripped")
                        text_roundtrip(prop, ex.world, e, where)
                        text_roundtrip(prop, ex.world, ex.world.ref(op[1]), where)
                if mirror is not None:
                    tr2, exc2 = run_traced(lambda: mirror.apply(op))
                    if exc2 is not None:
                        raise Violation(prop + ".mirror_exception", "%s: raised %s: %s on the other manager only" % (where, type(exc2).__name__, exc2))
                    c1, c2 = ex.world.contents(), mirror.contents()
                    for loc in spec.leaves:
                        if not same(c1[loc], c2[loc]):
                            if st.info.g_cyclic_trig:
                                ex.count("kf1_mirror_divergence")
                                mirror = None
                                break
                            raise Violation(prop + ".mirror", "%s: %s holds %r, in the dumped-and-loaded manager %r"
                                            % (where, path_str(loc), c1[loc], c2[loc]))
                    if mirror is not None and O.definitions(ex.world.mgr) != O.definitions(mirror.mgr):
                        raise Violation(prop + ".mirror_definitions", "%s: definitions of the two managers diverged" % where)
                try:
                    ex.check_contents(st.info.values, where, st.info, prop)
                except Violation as v:
                    if v.cls.endswith(".gcyclic"):
                        ex.count("stopped_on_kf1_divergence")
                        break
                    raise
        except Violation as v:
            if cfg.get("eqne_in_text") and (any(has_eqne(a) for a in ex.model.defs.values()) or
                                            (i >= 0 and any(has_eqne(x) for x in _asts_of(case["ops"][i])))):
                # a deferred equality node is among the definitions: its printed form is the structural `==`
                v.cls = v.cls + ".eqne"
                v.attrs["eqne"] = True
            return _outcome(ex, v, i, restarts > 0)
        return _outcome(ex, None, None, restarts > 0, None, digest(sorted(ex.stats.items())))


def has_eqne(ast):
    if not isinstance(ast, tuple) or not ast:
        return False
    if ast[0] == "bin":
        return ast[1] in ("==", "!=") or has_eqne(ast[2]) or has_eqne(ast[3])
    if ast[0] in ("un", "bi"):
        return has_eqne(ast[2])
    if ast[0] == "idx":
        return has_eqne(ast[1])
    if ast[0] == "call":
        return any(has_eqne(a) for a in ast[2]) or any(has_eqne(a) for _, a in ast[3])
    return False


def _asts_of(op):
    if op[0] == "sete":
        return [op[2]]
    if op[0] == "inpl":
        return [op[3]]
    if op[0] in ("load", "copyfrom"):
        return [a for _, a in op[1]]
    if op[0] == "copyexpr":
        return [a for _, a in op[4]]
    return []


DRIVERS["C11"] = C11


# ---------------------------------------------------------------------------
# C13: generated setter functions vs assigning through the manager (twin execution)
# ---------------------------------------------------------------------------
class C13:
    prop = "C13"

    @staticmethod
    def generate(ctx, run):
        from .gen import gen_value
        rc = rng_for(ctx.seed, "C13", run, "cfg")
        wo = {"regf": 0, "unregf": 0, "regk": 0, "unregk": 0, "sete": 55, "inpl": 8, "setv": 15, "unreg": 3}
        cfg = swarm_config(rc, ctx.tier, weights_over=wo, g_restricted=True)
        cfg["nplit"] = rc.random() < 0.3
        if cfg["nplit"]:
            # the generated source prints a numpy literal as a plain number, so the function computes with python floats
            # where the manager computes with numpy scalars; operators on which the two differ in value (round, **, //, %,
            # comparisons) are left out of these runs
            cfg["ops_off"] = sorted(set(cfg["ops_off"]) | {"round", "pow", "div", "divlit", "cmp", "shift"})
        spec = gen_spec(rng_for(ctx.seed, "C13", run, "spec"), cfg)
        hg = HistoryGen(rng_for(ctx.seed, "C13", run, "ops"), cfg, spec)
        rm = rng_for(ctx.seed, "C13", run, "markers")
        ops = []
        last_args = None
        n_mark = rm.randint(2, 5)
        marks = sorted(rm.randint(3, max(3, cfg["n_ops"])) for _ in range(n_mark))
        for k in range(cfg["n_ops"] + 1):
            while marks and marks[0] <= k:
                marks.pop(0)
                m = hg.model
                leaves = [l for l in spec.leaves if not m.is_derived(l)]
                if not leaves or not m.defs:
                    continue
                # bias: arguments that something depends on
                used = set()
                for a in m.defs.values():
                    used.update(m.static_reads_of_ast(a))
                good = [l for l in leaves if l in used] or leaves
                n = rm.randint(1, min(3, len(leaves)))
                args = []
                for _ in range(n):
                    p = rm.choice(good if rm.random() < 0.8 else leaves)
                    if p not in args:
                        args.append(p)
                # callers typically ask for the same setter again after the graph has changed
                if last_args and rm.random() < 0.45 and all(not m.is_derived(p) for p in last_args):
                    args = list(last_args)
                last_args = list(args)
                vals = [gen_value(rm, spec.leaf_type[p]) for p in args]
                if spec.funcs and rm.random() < 0.3:
                    # one argument is an entry of the function container: the setter then also swaps the function
                    # that call expressions use (f.lin = linb), before, between or after the other arguments
                    called = sorted(set(a[1][1] for d in m.defs.values() for a in ast_paths(d) if a[0] == "f") - {"vsum"})
                    if called:
                        slot = rm.choice(called)
                        impl = [x for x in SLOTS_REG[slot] if x != m.funcs.get(slot, slot)]
                        pos = rm.randint(0, len(args)) if rm.random() < 0.5 else len(args)
                        args.insert(pos, ("f", ("a", slot)))
                        vals.insert(pos, rm.choice(impl) if impl and rm.random() < 0.85 else m.funcs.get(slot, slot))
                vals = tuple(vals)
                mk = ("genfun", tuple(args), vals)
                # keep the generator's model in step: the call is equivalent to sequential assignments
                ok = True
                mm = m.clone()
                for p, v in zip(args, vals):
                    try:
                        model_step(mm, C13._assign_op(p, v), True)
                    except ModelReject:
                        ok = False
                        break
                if ok:
                    m.adopt(mm)
                    ops.append(mk)
            if k < cfg["n_ops"]:
                ops.extend(hg.history(n_ops=1))
        if rm.random() < 0.2 and not cfg["nplit"]:
            # last call of the history: one argument, a value at the edge of the float range ("all argument values").
            # Python may raise (OverflowError from ** or from rounding an infinity) or produce inf/nan: whatever it
            # does, the generated function and the assignment through the manager must do the same.
            m = hg.model
            fl = [l for l in spec.leaves if not m.is_derived(l) and spec.leaf_type[l] == "f"]
            used = set()
            for a in m.defs.values():
                used.update(m.static_reads_of_ast(a))
            fl = [l for l in fl if l in used] or fl
            if fl and m.defs:
                ops.append(("genfun", (rm.choice(fl),), (rm.choice([1e200, -1e200, 1e155, 1.7e308, -1e308, 1e-320, 2.0 ** 600]),), "extreme"))
        elif rm.random() < 0.3 and not cfg["nplit"]:
            # last call of the history: the definitions are taken out (unregister), a leaf is assigned, the same task
            # objects are registered again (register() does not evaluate, as load() does not): the dependants of that
            # leaf are now out of date.  The setter is then called with the very object the leaf holds - "any argument
            # values" - and must bring them up to date exactly as the assignment through the manager does.
            m = hg.model
            used = set()
            for a in m.defs.values():
                used.update(m.static_reads_of_ast(a))
            fl = [l for l in spec.leaves if not m.is_derived(l) and l in used]
            if fl and m.defs:
                q = rm.choice(fl)
                ops.append(("genfun", (q,), (gen_value(rm, spec.leaf_type[q]),), "stale"))
        return {"cfg": cfg, "spec": spec.to_json(), "ops": ops}

    @staticmethod
    def _stale_tail(ex, S, T, spec, q, newval, where):
        """see generate(): both executions go through the same unregister / assign / register sequence, then the subject
        calls the generated setter and the twin assigns through the manager, each with the object its leaf holds"""
        prop = "C13"
        xd = ex.xd
        m2 = ex.model.clone()
        try:
            info = model_step(m2, ("setv", q, newval, "mgr"), True)
        except ModelReject:
            ex.count("skipped")
            return False
        if any(isinstance(v, float) and v != v for v in info.values.values()):
            ex.count("skipped_zero_division_proviso")
            return False
        for W in (S, T):
            mgr = W.mgr
            tasks = [(tid, t) for tid, t in mgr.tasks.items() if isinstance(t, xd.tasks.ExprTask)]
            def seq():
                for tid, t in tasks:
                    mgr.unregister(tid)
                mgr.set_value(W.ref(q), newval)
                for tid, t in tasks:
                    mgr.register(t)
            tr, exc = run_traced(seq)
            if isinstance(exc, SimStall):
                raise exc
            if exc is not None:
                raise Violation(prop + ".exception", "%s: unregister / assign / register raised %s: %s" % (where, type(exc).__name__, exc))
        f = S.mgr.gen_fun("fnstale", x0=S.ref(q))
        held_s, held_t = S.contents()[q], T.contents()[q]
        tr, e1 = run_traced(lambda: f(held_s))
        tr, e2 = run_traced(lambda: T.mgr.set_value(T.ref(q), held_t))
        for e in (e1, e2):
            if isinstance(e, SimStall):
                raise e
        ex.count("gen_fun_calls_on_out_of_date_dependants")
        if isinstance(e1, ZeroDivisionError) or isinstance(e2, ZeroDivisionError):
            ex.count("stopped_on_zero_division_proviso")
            return True
        if e1 is not None:
            raise Violation(prop + ".call_raises", "%s: calling the generated function raised %s: %s" % (where, type(e1).__name__, e1))
        if e2 is not None:
            raise Violation(prop + ".twin_raises", "%s: assigning through the manager raised %s" % (where, e2))
        c1, c2 = S.contents(), T.contents()
        for loc in spec.leaves:
            if not same(plain(c1[loc]), plain(c2[loc])):
                raise Violation(prop + ".differs", "%s: %s holds %r after the generated function, %r after assigning through the manager"
                                % (where, path_str(loc), c1[loc], c2[loc]))
            if not same(plain(c1[loc]), plain(info.values[loc])):
                raise Violation(prop + ".model", "%s: %s holds %r, the definitions give %r" % (where, path_str(loc), c1[loc], info.values[loc]))
        ex.model.adopt(m2)
        return True

    @staticmethod
    def _assign_op(p, v):
        """the assignment one argument of a generated setter stands for"""
        if p[0] == "f":
            return ("setfunc", p[1][1], v)
        return ("setv", p, v, "mgr")

    @staticmethod
    def execute(ctx, case):
        prop = "C13"
        xd = ctx.xd
        spec = Spec.from_json(case["spec"])
        cfg = case["cfg"]
        salt = cfg["salt"]
        ex = Exec(xd, spec, True, salt)
        T = World(spec, xd, salt)          # the twin: same history, assignments always go through the manager
        calls = 0
        i = -1
        try:
            for i, op in enumerate(case["ops"]):
                S = ex.world
                if op[0] != "genfun":
                    st = ex.step(op)
                    if st is None:
                        continue
                    tr2, exc2 = run_traced(lambda: T.apply(op))
                    if st.exc is not None or exc2 is not None:
                        raise Violation(prop + ".exception", "op %d (%s) raised %s" % (i, op[0], st.exc or exc2))
                    try:
                        # loose: after a generated function ran, locations hold python numbers where the manager
                        # would have stored numpy scalars (the source prints a numpy literal as a plain number)
                        ex.check_contents(st.info.values, "op %d" % i, st.info, prop, loose=True)
                    except Violation:
                        ex.count("stopped_on_content_mismatch")     # C01's business
                        break
                    continue
                _, args, vals = op[:3]
                extreme = len(op) > 3 and op[3] == "extreme"
                if any(ex.model.is_derived(p) for p in args) or len(set(args)) != len(args):
                    ex.count("skipped")
                    continue
                where = "gen_fun call %d before op %d, arguments %s" % (calls, i, ", ".join(path_str(p) for p in args))
                if len(op) > 3 and op[3] == "stale":
                    where = "gen_fun call on out-of-date dependants (definitions unregistered, %s = %r assigned, the same tasks registered again, " \
                            "setter called with the object the location holds)" % (path_str(args[0]), vals[0])
                    if C13._stale_tail(ex, S, T, spec, args[0], vals[0], where):
                        calls += 1
                    break
                # ---- model: sequential assignments ------------------------------------------------
                m2 = ex.model.clone()
                trig_all = set()
                infos = []
                try:
                    for p, v in zip(args, vals):
                        inf = model_step(m2, C13._assign_op(p, v), True)
                        infos.append(inf)
                        trig_all |= inf.trig
                except ModelReject:
                    if extreme and len(args) == 1:
                        # outside what the model follows (overflow, infinities): the two executions are compared with each
                        # other - same exception class or none, and without an exception the same contents
                        kw1 = {"x0": S.ref(args[0])}
                        f = S.mgr.gen_fun("fnx", **kw1)
                        tr, e1 = run_traced(lambda: f(vals[0]))
                        tr, e2 = run_traced(lambda: T.apply(("setv", args[0], vals[0], "mgr")))
                        for e in (e1, e2):
                            if isinstance(e, SimStall):
                                raise e
                        ex.count("gen_fun_calls_with_extreme_value")
                        if e1 is not None or e2 is not None:
                            ex.count("gen_fun_extreme_value_raises")
                        where = "gen_fun call with %s = %r before op %d" % (path_str(args[0]), vals[0], i)
                        if not isinstance(e1, ZeroDivisionError) and not isinstance(e2, ZeroDivisionError):
                            if type(e1) is not type(e2):
                                raise Violation(prop + ".exception_differs", "%s: the generated function %s, assigning through the manager %s"
                                                % (where, "raised %s: %s" % (type(e1).__name__, e1) if e1 is not None else "returned normally",
                                                   "raised %s: %s" % (type(e2).__name__, e2) if e2 is not None else "returned normally"))
                            # with or without an exception the argument itself was assigned (in both executions that is the
                            # first thing that happens; which of the tasks ran before the failure is not compared)
                            a1, a2 = S.contents()[args[0]], T.contents()[args[0]]
                            if not same(plain(a1), vals[0]) or not same(plain(a2), vals[0]):
                                raise Violation(prop + ".argument_lost", "%s: afterwards the location holds %r (generated function) / %r (manager), "
                                                "the argument was %r" % (where, a1, a2, vals[0]))
                            if e1 is None:
                                c1, c2 = S.contents(), T.contents()
                                for loc in spec.leaves:
                                    if not same(plain(c1[loc]), plain(c2[loc])):
                                        raise Violation(prop + ".differs", "%s: %s holds %r after the generated function, %r after assigning through the manager"
                                                        % (where, path_str(loc), c1[loc], c2[loc]))
                        calls += 1
                        break               # the model does not follow this state
                    ex.count("skipped")
                    continue
                values = infos[-1].values
                if any(isinstance(v, float) and v != v for v in values.values()):
                    ex.count("skipped_zero_division_proviso")
                    continue
                names = ["x%d" % k for k in range(len(args))]
                kwargs = {n: S.ref(p) for n, p in zip(names, args)}
                fname = "fn" + "".join(ch for ch in salt if ch.isalnum())
                # ---- the source ----------------------------------------------------------------------
                tr, exc = run_traced(lambda: S.mgr.mk_fun(fname, **kwargs))
                if exc is not None:
                    raise Violation(prop + ".mk_fun_raises", "%s: mk_fun raised %s: %s" % (where, type(exc).__name__, exc))
                src = S.mgr.mk_fun(fname, **kwargs)
                lines = src.split("\n")
                head = lines[0]
                body = [l.strip() for l in lines[1:]]
                exp_assign = ["%s = %s" % (S.ref(p), n) for n, p in zip(names, args)]
                if body[:len(args)] != exp_assign:
                    raise Violation(prop + ".source_args", "%s: the source does not start with the argument assignments: %s" % (where, body[:len(args)]))
                # expected triggered expression tasks (model): everything downstream of the arguments or their containers
                decl = ex.model.tasks_decl()
                edges = ex.model.g_edges(decl)
                start = set()
                for p in args:
                    start.update(ex.model.pfx(p))
                trig, _, _ = ex.model.trigger(start, decl, edges)
                exp_lines = {"%s = %s" % (S.ref(t[1]), S.ref(t[1])._expr): t for t in trig}
                got = body[len(args):]
                seen = {}
                for pos, l in enumerate(got):
                    if l in seen:
                        raise Violation(prop + ".source_twice", "%s: task `%s` is listed twice" % (where, l[:120]))
                    seen[l] = pos
                # tasks whose value really depends on an argument (exact data flow) must be listed; tasks that the
                # manager would also re-run only because they read a sibling below the same container may be listed
                must = set()
                changed = True
                argset = set(args)
                while changed:
                    changed = False
                    for loc in ex.model.defs:
                        if loc in must:
                            continue
                        rd = ex.model.static_reads(loc)
                        if any((r in argset) or (r in must) for r in rd):
                            must.add(loc)
                            changed = True
                missing = [l for l, t in exp_lines.items() if l not in seen and t[1] in must]
                extra = [l for l in seen if l not in exp_lines]
                if extra:
                    raise Violation(prop + ".source_extra", "%s: the source lists `%s`, which does not depend on the arguments" % (where, extra[0][:160]))
                if missing:
                    raise Violation(prop + ".source_missing", "%s: triggered task `%s` is missing from the source" % (where, missing[0][:160]))
                for l, t in exp_lines.items():
                    if l not in seen:
                        continue
                    for u in edges[t]:
                        if u in trig and u != t:
                            lu = [x for x, tt in exp_lines.items() if tt == u][0]
                            if lu in seen and seen[l] > seen[lu]:
                                raise Violation(prop + ".source_order", "%s: `%s` is listed before its producer `%s`" % (where, lu[:100], l[:100]))
                # ---- the call vs the twin ------------------------------------------------------------
                tr, exc = run_traced(lambda: S.mgr.gen_fun(fname, **kwargs))
                if exc is not None:
                    raise Violation(prop + ".gen_fun_raises", "%s: gen_fun raised %s: %s" % (where, type(exc).__name__, exc))
                f = S.mgr.gen_fun(fname, **kwargs)
                # another manager (the twin: same labels, other containers) generates a function of the same name in
                # between; the function made for the subject must keep working on the subject's containers
                run_traced(lambda: T.mgr.gen_fun(fname, **{n: T.ref(p) for n, p in zip(names, args)}))
                calls += 1
                ex.count("gen_fun_calls")
                ex.count("tasks_in_generated_functions", len(got))
                if any(p[0] == "f" for p in args):
                    ex.count("gen_fun_calls_with_function_argument")
                tr, exc = run_traced(lambda: f(*[FUNCS_REG[v] if p[0] == "f" else v for p, v in zip(args, vals)]))
                if isinstance(exc, SimStall):
                    raise exc
                if isinstance(exc, ZeroDivisionError):
                    ex.count("stopped_on_zero_division_proviso")
                    break
                if exc is not None:
                    raise Violation(prop + ".call_raises", "%s: calling the generated function raised %s: %s" % (where, type(exc).__name__, exc))
                for p, v in zip(args, vals):
                    tr2, exc2 = run_traced(lambda: T.apply(C13._assign_op(p, v)))
                    if exc2 is not None:
                        raise Violation(prop + ".twin_raises", "%s: assigning through the manager raised %s" % (where, exc2))
                ex.model.adopt(m2)
                c1, c2 = S.contents(), T.contents()
                for loc in spec.leaves:
                    # the generated source prints a numpy-scalar literal as a plain number: same value, python type
                    if not same(plain(c1[loc]), plain(c2[loc])):
                        raise Violation(prop + ".differs", "%s: %s holds %r after the generated function, %r after assigning through the manager"
                                        % (where, path_str(loc), c1[loc], c2[loc]))
                    if not same(plain(c1[loc]), plain(values[loc])):
                        raise Violation(prop + ".model", "%s: %s holds %r, the definitions give %r" % (where, path_str(loc), c1[loc], values[loc]))
        except Violation as v:
            return _outcome(ex, v, i, calls > 0)
        return _outcome(ex, None, None, calls > 0, None, digest(sorted(ex.stats.items())))


DRIVERS["C13"] = C13


# ---------------------------------------------------------------------------
# C20: the same program under {compiled, pure} x hash seeds -> identical transcripts
# (the comparison across interpreters is made by the parent, see runner.run_cross)
# ---------------------------------------------------------------------------
class C20:
    prop = "C20"

    @staticmethod
    def generate(ctx, run):
        if run % 150 == 11:
            return gen_collide_case(ctx, run, "C20")
        rc = rng_for(ctx.seed, "C20", run, "cfg")
        cfg = swarm_config(rc, ctx.tier, weights_over={"load": 3, "refresh": 1, "copyfrom": 3})
        cfg["g_restricted"] = rc.random() < 0.8
        cfg["npkeys"] = rc.random() < 0.4
        if cfg["npkeys"]:
            cfg["weights"]["load"] = 0
            cfg["weights"]["copyfrom"] = 0
        spec = gen_spec(rng_for(ctx.seed, "C20", run, "spec"), cfg)
        hg = HistoryGen(rng_for(ctx.seed, "C20", run, "ops"), cfg, spec)
        ops = hg.history()
        # epilogue: one or two assignments that make Python raise (the exception type is part of the transcript).
        # They bypass the model, so they are built so that they cannot close a data-flow cycle: the target is a
        # location nothing reads, and the expression does not read an epilogue target.
        re_ = rng_for(ctx.seed, "C20", run, "epilogue")
        epi = []
        m = hg.model
        read = set()
        for loc in list(m.defs) + list(m.ft_target) + list(m.kn_target):
            read.update(m.static_reads(loc))
        free_t = [l for l in spec.leaves if l not in read and l not in m.ft_target and l not in m.kn_target]
        re_.shuffle(free_t)
        tgts = free_t[:re_.randint(0, 2)]
        fl = [l for l in spec.leaves if spec.leaf_type[l] == "f" and l not in tgts]
        il = [l for l in spec.leaves if spec.leaf_type[l] == "i" and l not in tgts]
        lists = [p for p, ct in spec.containers.items() if ct in ("list", "nplist") and not any(t[:len(p)] == p for t in tgts)
                 and all(c in spec.leaf_type for c in spec.children[p])]
        for tgt in tgts:
            k = re_.choice(["negshift", "floatshift", "badindex", "roundfloat"])
            if k == "negshift" and il:
                epi.append(("raw_sete", tgt, ("bin", "<<", ("ref", re_.choice(il)), ("lit", -1))))
            elif k == "floatshift" and fl:
                epi.append(("raw_sete", tgt, ("bin", ">>", ("ref", re_.choice(fl)), ("lit", 1))))
            elif k == "badindex" and lists and il:
                lst = re_.choice(lists)
                epi.append(("raw_sete", tgt, ("bin", "+", ("ref", lst + (("c", re_.choice(il)),)), ("lit", 1000))))
            elif k == "roundfloat" and fl:
                epi.append(("raw_sete", tgt, ("bi", "round", ("ref", re_.choice(fl)), (1.5,))))
        if fl and re_.random() < 0.35 and free_t[len(tgts):]:
            # Python-level corners that raise TypeError in every configuration: divmod() with the reference on the right
            # (there is no __rdivmod__), a call expression with an unhashable literal argument (call nodes are hashed)
            tgt2 = free_t[len(tgts)]
            src = re_.choice([l for l in fl if l != tgt2] or fl)
            if src != tgt2:
                epi.append(("raw_pycorner", tgt2, re_.choice(["rdivmod", "calllist"] if spec.funcs else ["rdivmod"]), src))
        if lists and re_.random() < 0.5:
            # an unhashable subscript on a list/array held by the manager: refs are hashable, so this is a TypeError
            epi.append(("raw_badkey", re_.choice(lists), re_.choice(["list", "list1", "dict", "set"]),
                        re_.choice([("lit", 2.5), ("ref", re_.choice(fl))] if fl else [("lit", 2.5)])))
        return {"cfg": cfg, "spec": spec.to_json(), "ops": ops, "epilogue": epi}

    @staticmethod
    def execute(ctx, case):
        prop = "C20"
        xd = ctx.xd
        if "collide" in case:
            o = exec_collide(ctx, case, prop)
            o["violation"] = None            # the transcript (the three values) is compared across configurations
            return o
        spec = Spec.from_json(case["spec"])
        cfg = case["cfg"]
        ex = Exec(xd, spec, cfg["g_restricted"], cfg["salt"])
        steps = []
        nontrivial = False

        def record(tag, exc):
            w = ex.world
            try:
                dump = [list(x) for x in w.mgr.dump()]
            except Exception as e:
                dump = "dump raised " + type(e).__name__
            rec = [tag, None if exc is None else type(exc).__name__,
                   [[path_str(k), canon(v)] for k, v in w.contents().items()],
                   O.definitions(w.mgr), dump]
            steps.append(digest(rec))

        stopped = None
        for i, op in enumerate(case["ops"]):
            st = ex.step(op)
            if st is None:
                steps.append("skip")
                continue
            if isinstance(st.exc, SimStall):
                raise st.exc
            if st.info.g_cyclic_trig:
                # KF-1 territory: the outcome of this update legitimately depends on the schedule; the transcript ends
                # here (the decision comes from the model, so it is the same in every configuration)
                ex.count("stopped_at_gcyclic_update")
                stopped = i
                break
            if st.info.trig:
                nontrivial = True
            record("op%d:%s" % (i, op[0]), st.exc)
            if st.exc is not None:
                ex.count("exceptions_in_transcript")
        if stopped is None:
            for j, op in enumerate(case.get("epilogue", ())):
                try:
                    w = ex.world
                    if op[0] == "raw_pycorner":
                        _, path, what, src = op

                        def corner():
                            r = w.build(("ref", tuple(src)))
                            if what == "rdivmod":
                                e = divmod(100, r)
                            else:
                                e = w.rootref["f"].add3(r, [1.0, 2.0]) + 1
                            w._assign(tuple(path), e, "item")
                        tr, exc = run_traced(corner)
                        ex.count("epilogue_python_corner")
                    elif op[0] == "raw_badkey":
                        _, path, kk, ast = op
                        key = {"list": [0, 1], "list1": [0], "dict": {}, "set": set([0])}[kk]

                        def badkey():
                            w.build(("ref", tuple(path)))[key] = w.build(ast)
                        tr, exc = run_traced(badkey)
                        ex.count("epilogue_unhashable_key")
                    else:
                        _, path, ast = op
                        tr, exc = run_traced(lambda: w._assign(path, w.build(ast), "item"))
                except SimStall:
                    raise
                if isinstance(exc, SimStall):
                    raise exc
                record("epilogue%d" % j, exc)
                if exc is not None:
                    ex.count("exceptions_in_transcript")
        if stopped is None and case.get("pickle", True):
            # a pickle round trip of the manager (with its containers): outcome and restored definitions are part of the transcript
            try:
                w = ex.world
                m2, roots2 = pickle.loads(pickle.dumps((w.mgr, w.rootobj)))
                rec = ["pickle", None, O.definitions(m2), [list(x) for x in m2.dump()]]
            except SimStall:
                raise
            except Exception as e:
                rec = ["pickle", type(e).__name__]
                ex.count("exceptions_in_transcript")
            steps.append(digest(rec))
        out = _outcome(ex, None, None, nontrivial, {"steps": steps}, digest(steps))
        return out


DRIVERS["C20"] = C20


# ---------------------------------------------------------------------------
# dedicated scenarios: deep chains (C01) and cyclic public graphs (C02 termination / at-most-once clause)
# ---------------------------------------------------------------------------
import sys as _sys


def gen_chain_case(ctx, run, prop):
    r = rng_for(ctx.seed, prop, run, "chain")
    n = r.randint(1050, 2200) if ctx.tier == "quick" else r.randint(1050, 5000)
    salt = "".join(r.choice("abcdefghijklmnopqrstuvwxyz0123456789") for _ in range(3))
    order = list(range(1, n + 1))
    how = r.choice(["shuffled", "reversed", "forward", "shuffled"])
    if how == "reversed":
        # every definition re-runs the whole chain below it: quadratic, keep it just above the recursion limit
        n = min(n, r.randint(1050, 1300))
        order = list(range(1, n + 1))
    if how == "shuffled":
        r.shuffle(order)
    elif how == "reversed":
        order.reverse()
    side = sorted(r.sample(range(3, n), min(20, n // 60)))       # a few diamond joins along the chain
    return {"chain": {"n": n, "salt": salt, "order": order, "how": how, "side": side,
                      "reclimit": r.choice([250, 1000, 1000, 3000]), "x": r.choice([2.0, -3.5, 10.0]),
                      # short branches hanging directly off the assigned location, not reachable from the chain
                      # (defined before or after it): which of them the sort meets before the head of the chain is up to the hash order
                      "branches": [r.choice(["before", "after"]) for _ in range(r.randint(0, 6))]}}


def exec_chain(ctx, case, prop):
    ch = case["chain"]
    xd = ctx.xd
    n, salt = ch["n"], ch["salt"]
    from ..containers import SimDict
    mgr = xd.Manager()
    d = SimDict(("v%d%s" % (i, salt), 0.0) for i in range(n + 1))
    for j in ch["side"]:
        dict.__setitem__(d, "w%d%s" % (j, salt), 0.0)
    r = mgr.ref(d, "r" + salt)
    key = lambda i: "v%d%s" % (i, salt)
    old = _sys.getrecursionlimit()
    stats = {"chain_tasks": n + len(ch["side"]), "chain_runs": 1}
    viol = None
    try:
        _sys.setrecursionlimit(max(ch["reclimit"], 200))
        branches = list(ch.get("branches", ()))
        for k in range(len(branches)):
            dict.__setitem__(d, "b%d%s" % (k, salt), 0.0)
            dict.__setitem__(d, "bb%d%s" % (k, salt), 0.0)

        def define_branches(when):
            for k, wh in enumerate(branches):
                if wh == when:
                    r["b%d%s" % (k, salt)] = r[key(0)] * (k + 2.0)
                    r["bb%d%s" % (k, salt)] = r["b%d%s" % (k, salt)] + 1.0
        try:
            define_branches("before")
            for i in ch["order"]:
                r[key(i)] = r[key(i - 1)] + 1.0
                if i in ch["side"]:
                    r["w%d%s" % (i, salt)] = r[key(i)] - r[key(i - 2)]
            define_branches("after")
            r[key(0)] = ch["x"]
        except SimStall:
            raise
        except BaseException as e:      # noqa
            if isinstance(e, (KeyboardInterrupt, SystemExit)):
                raise
            viol = Violation(prop + ".chain.exception", "chain of %d dependants (%s definitions, recursion limit %d): %s: %s"
                             % (n, ch["how"], ch["reclimit"], type(e).__name__, str(e)[:200]), exc=type(e).__name__)
    finally:
        _sys.setrecursionlimit(old)
    if viol is None:
        for i in range(n + 1):
            v = dict.__getitem__(d, key(i))
            if v != ch["x"] + i:
                viol = Violation(prop + ".chain.content", "chain of %d dependants (%s definitions): %s holds %r, expected %r"
                                 % (n, ch["how"], key(i), v, ch["x"] + i))
                break
        if viol is None:
            for k in range(len(branches)):
                v = dict.__getitem__(d, "bb%d%s" % (k, salt))
                if v != ch["x"] * (k + 2.0) + 1.0:
                    viol = Violation(prop + ".chain.content", "chain of %d dependants: branch bb%d off the assigned location holds %r, expected %r"
                                     % (n, k, v, ch["x"] * (k + 2.0) + 1.0))
                    break
        if viol is None:
            for j in ch["side"]:
                v = dict.__getitem__(d, "w%d%s" % (j, salt))
                if v != 2.0:
                    viol = Violation(prop + ".chain.content", "chain of %d dependants: join w%d holds %r, expected 2.0" % (n, j, v))
                    break
    return {"violation": (dict(viol.to_json(), step=None) if viol else None), "nontrivial": True, "stats": stats, "extra": {}, "trace_digest": "chain"}


def gen_cyclic_case(ctx, run, prop):
    r = rng_for(ctx.seed, prop, run, "cyclic")
    salt = "".join(r.choice("abcdefghijklmnopqrstuvwxyz0123456789") for _ in range(3))
    nl = r.randint(4, 8)
    nt = r.randint(2, 5)
    tasks = []
    for t in range(nt):
        tg = r.sample(range(nl), r.randint(1, 2))
        dp = [x for x in r.sample(range(nl), r.randint(1, 3)) if x not in tg] or [(tg[0] + 1) % nl]
        tasks.append((dp, tg))
    # close at least one cycle: task 0 reads a target of the last task and vice versa
    tasks[0] = (sorted(set(tasks[0][0] + [tasks[-1][1][0]]) - set(tasks[0][1])) or [tasks[-1][1][0]], tasks[0][1])
    tasks[-1] = (sorted(set(tasks[-1][0] + [tasks[0][1][0]]) - set(tasks[-1][1])) or [tasks[0][1][0]], tasks[-1][1])
    exprs = [(r.randrange(nl), r.sample(range(nl), 2)) for _ in range(r.randint(0, 3))]
    assigns = [(r.randrange(nl), float(r.randint(-5, 5))) for _ in range(r.randint(2, 6))]
    order = list(range(nt))
    r.shuffle(order)
    return {"cyclic": {"salt": salt, "nl": nl, "tasks": tasks, "exprs": exprs, "assigns": assigns, "order": order}}


def exec_cyclic(ctx, case, prop):
    cy = case["cyclic"]
    xd = ctx.xd
    from ..containers import SimDict
    from .. import containers as Cmod
    salt = cy["salt"]
    mgr = xd.Manager()
    names = ["c%d%s" % (i, salt) for i in range(cy["nl"])]
    d = SimDict((k, 1.0) for k in names)
    r = mgr.ref(d, "r" + salt)
    decl = {}

    def mk_action(tid, dp, tg):
        def act():
            Cmod._event("act", 0, tid)
            s = 0.0
            for x in dp:
                s += d[names[x]]
            for x in tg:
                d[names[x]] = s * 0.5
        return act

    for t in cy["order"]:
        dp, tg = cy["tasks"][t]
        tid = "f%d%s" % (t, salt)
        mgr.register(xd.tasks.FunctionTask(tid, mk_action(tid, dp, tg), set(r[names[x]] for x in tg), set(r[names[x]] for x in dp)))
        decl[tid] = (set(dp), set(tg))
    eids = {}
    for tgt, (a, b) in cy["exprs"]:
        if any(tgt in v[1] for v in decl.values()) or tgt in eids or tgt in (a, b):
            continue
        try:
            mgr.register(xd.tasks.ExprTask(r[names[tgt]], r[names[a]] + r[names[b]]))
        except Exception:
            continue
        eids[tgt] = "e%d" % tgt
        decl["e%d" % tgt] = ({a, b}, {tgt})
    stats = {"cyclic_graphs": 1}
    viol = None
    for k, (loc, val) in enumerate(cy["assigns"]):
        if loc in eids:
            continue
        # trigger set by the statement: closure under "writes something the other reads"
        trig = set(t for t, (dp, tg) in decl.items() if loc in dp)
        work = list(trig)
        while work:
            t = work.pop()
            for u, (dp, tg) in decl.items():
                if u not in trig and decl[t][1] & dp:
                    trig.add(u)
                    work.append(u)
        tr, exc = run_traced(lambda: r.__setitem__(names[loc], val))
        if isinstance(exc, SimStall):
            raise exc
        where = "cyclic graph, assignment %d to %s" % (k, names[loc])
        if exc is not None:
            viol = Violation(prop + ".cyclic.exception", "%s raised %s: %s" % (where, type(exc).__name__, exc))
            break
        ran = [ev[2] for ev in tr if ev[0] == "act"]
        ewrites = [ev[2] for ev in tr[1:] if ev[0] == "w" and any(ev[2] == names[t] for t in eids)]
        for tid in set(ran):
            if ran.count(tid) > 1:
                viol = Violation(prop + ".cyclic.twice", "%s: task %s ran %d times" % (where, tid, ran.count(tid)))
            elif tid not in trig:
                viol = Violation(prop + ".cyclic.outside", "%s: task %s ran but does not depend on the assigned location" % (where, tid))
        for nm in set(ewrites):
            tgt = names.index(nm)
            # an expression target may also be written by a function task; count the expression task via reads? keep to membership
            if "e%d" % tgt not in trig and not any(tgt in decl[t][1] for t in ran if t in decl):
                viol = Violation(prop + ".cyclic.outside", "%s: expression task of %s ran but does not depend on the assigned location" % (where, nm))
        stats["cyclic_updates"] = stats.get("cyclic_updates", 0) + 1
        stats["cyclic_tasks_run"] = stats.get("cyclic_tasks_run", 0) + len(ran)
        if viol:
            break
    return {"violation": (dict(viol.to_json(), step=None) if viol else None), "nontrivial": True, "stats": stats, "extra": {}, "trace_digest": "cyclic"}


# ---------------------------------------------------------------------------
# dedicated scenario: two task ids whose (32-bit, compiled build) hashes collide, in one propagation
# ---------------------------------------------------------------------------
def gen_subscript_case(ctx, run, prop):
    r = rng_for(ctx.seed, prop, run, "subscript")
    salt = "".join(r.choice("abcdefghijklmnopqrstuvwxyz") for _ in range(3))
    n = r.randint(3, 6)
    return {"subscript": {"salt": salt, "n": n, "k1": r.randrange(n), "k2": r.randrange(n), "v1": r.choice([5.0, -2.5, 7.0]),
                          "v2": r.choice([1.5, 9.0, -4.0]), "order": r.sample(range(6), 6), "first": r.choice(["other", "same"])}}


def exec_subscript(ctx, case, prop):
    """An assignment made THROUGH a reference-valued subscript: a.g.vals[<ref>] = v.  The assigned location is the element
    the subscript selects at that moment; the tasks to run are those that depend on it or on a container enclosing it
    (vals, g).  A task that depends only on the subscript is not among them.  Two assignments: the subscript lives in
    another top-level container ('other'), or in the same group g as the list ('same': then it is inside an enclosing
    container and its readers do belong to the set)."""
    sc = case["subscript"]
    xd = ctx.xd
    from ..containers import SimDict, SimList
    salt = sc["salt"]
    mgr = xd.Manager()
    vals = SimList([float(i) for i in range(sc["n"])])
    g = SimDict([("vals", vals), ("idx", sc["k2"]), ("other", 2.0)])
    a = SimDict([("g", g), ("s", 0.0), ("f", 0.0), ("w", 0.0), ("z", 0.0)])
    b = SimDict([("idx", sc["k1"]), ("t", 0.0)])
    ra, rb = mgr.ref(a, "a" + salt), mgr.ref(b, "b" + salt)
    ran = []
    defs = [
        lambda: ra.__setitem__("s", ra["g"]["vals"][rb["idx"]] + 1.0),                     # reads the element through the other subscript
        lambda: ra.__setitem__("f", ra["g"]["other"] * 3.0),                                # reads a sibling inside g
        lambda: ra.__setitem__("w", ra["g"]["vals"][ra["g"]["idx"]] * 2.0),                 # reads the element through the subscript in g
        lambda: rb.__setitem__("t", rb["idx"] * 2),                                         # depends on the other subscript only
        lambda: mgr.register(xd.tasks.FunctionTask("obsI" + salt, lambda: ran.append("obsI"), set(), {rb["idx"]})),
        lambda: mgr.register(xd.tasks.FunctionTask("obsG" + salt, lambda: ran.append("obsG"), set(), {ra["g"]})),
    ]
    for j in sc["order"]:
        defs[j]()
    target_of = {"s": "s", "f": "f", "w": "w", "t": "t"}
    stats = {"subscript_scenarios": 1}
    viol = None

    def assign(which, value):
        del ran[:]
        keyref = rb["idx"] if which == "other" else ra["g"]["idx"]
        tr, exc = run_traced(lambda: ra["g"]["vals"].__setitem__(keyref, value))
        if isinstance(exc, SimStall):
            raise exc
        if exc is not None:
            return None, exc
        got = set(ran)
        for ev in tr:
            if ev[0] == "w" and ev[2] in target_of:
                got.add(ev[2])
        return got, None

    plan = [("other", sc["v1"]), ("same", sc["v2"])]
    if sc["first"] == "same":
        plan.reverse()
    found = []          # every assignment is judged; the most specific violation is reported (the known class last)
    for which, value in plan:
        got, exc = assign(which, value)
        where = "a.g.vals[%s] = %r" % ("b.idx" if which == "other" else "a.g.idx", value)
        viol = None
        if exc is not None:
            found.append(Violation(prop + ".subscript.exception", "%s raised %s: %s" % (where, type(exc).__name__, exc)))
            break
        # depends on vals / g (enclosing containers) or on the element: s, w, f (reads g.other: declared on g), obsG;
        # the readers of a.g.idx are inside g as well (w).  t and obsI depend on b.idx only.
        expected = {"s", "w", "f", "obsG"}
        missing = sorted(expected - got)
        outside = sorted(got - expected)
        k = sc["k1"] if which == "other" else sc["k2"]
        if list.__getitem__(vals, k) != value:
            found.append(Violation(prop + ".subscript.content", "%s: element %d holds %r" % (where, k, list.__getitem__(vals, k))))
        if missing:
            found.append(Violation(prop + ".subscript.missing", "%s: task(s) %s depend on the element or on a container enclosing it and did not run (ran: %s)"
                                   % (where, missing, sorted(got))))
        if outside:
            # subscript in another container: KF-3 (the unmodified code starts from the subscript's dependencies too);
            # subscript inside g: nothing outside the set can be reached that way, so anything extra is something else
            cls = ".subscript.outside" if which == "other" and set(outside) <= {"t", "obsI"} else ".subscript.outside_other"
            found.append(Violation(prop + cls, "%s: task(s) %s ran although they depend only on the subscript, not on the assigned "
                                   "location or a container enclosing it (ran: %s)" % (where, outside, sorted(got))))
    viol = None
    for v_ in found:
        if viol is None or (viol.cls.endswith(".subscript.outside") and not v_.cls.endswith(".subscript.outside")):
            viol = v_
    return {"violation": (dict(viol.to_json(), step=None) if viol else None), "nontrivial": True, "stats": stats, "extra": {}, "trace_digest": "subscript"}


def gen_collide_case(ctx, run, prop):
    r = rng_for(ctx.seed, prop, run, "collide")
    salt = "".join(r.choice("abcdefghijklmnopqrstuvwxyz") for _ in range(3))
    return {"collide": {"salt": salt, "n": 150000, "x": r.choice([5.0, -2.5, 7.0]), "order": r.choice(["XYs", "YXs", "sXY", "XsY"])}}


def exec_collide(ctx, case, prop):
    """Equality of references is decided by their text, the hash is only a hash: two different task ids with the same
    hash (the compiled module keeps 32 bits) must both run.  A colliding pair is searched among n references of this
    interpreter (found with probability ~0.9); without one the scenario is a no-op."""
    co = case["collide"]
    xd = ctx.xd
    from ..containers import SimDict
    salt = co["salt"]
    mgr = xd.Manager()
    d = SimDict()
    r = mgr.ref(d, "r" + salt)
    seen = {}
    pair = None
    for i in range(co["n"]):
        k = "q%d%s" % (i, salt)
        h = hash(r[k]) & 0xFFFFFFFF
        if h in seen:
            pair = (seen[h], k)
            break
        seen[h] = k
    seen = None
    stats = {"collision_scenarios": 1}
    exp = (co["x"] + 1, co["x"] * 2, co["x"] + 1 + co["x"] * 2)
    if pair is None:
        return {"violation": None, "nontrivial": False, "stats": stats, "extra": {"steps": [digest(list(exp))]}, "trace_digest": digest(list(exp))}
    X, Y = pair
    stats["collision_pairs_found"] = 1
    if hash(r[X]) == hash(r[Y]):
        stats["full_hash_collisions"] = 1
    for k in ("p", "s", X, Y):
        dict.__setitem__(d, k + salt if k in ("p", "s") else k, 0.0)
    p, s_ = "p" + salt, "s" + salt
    defs = {"X": lambda: r.__setitem__(X, r[p] + 1), "Y": lambda: r.__setitem__(Y, r[p] * 2), "s": lambda: r.__setitem__(s_, r[X] + r[Y])}
    viol = None
    try:
        for ch in co["order"]:
            defs[ch]()
        r[p] = co["x"]
    except SimStall:
        raise
    except Exception as e:
        viol = Violation(prop + ".collision.exception", "two task ids with colliding hashes: %s: %s" % (type(e).__name__, e))
    got = (dict.__getitem__(d, X), dict.__getitem__(d, Y), dict.__getitem__(d, s_))
    if viol is None and got != exp:
        viol = Violation(prop + ".collision.content", "task ids %s and %s have the same 32-bit hash; after assigning the common input the three dependants hold %s, expected %s"
                         % (X, Y, got, exp))
    return {"violation": (dict(viol.to_json(), step=None) if viol else None), "nontrivial": True, "stats": stats,
            "extra": {"steps": [digest(list(got))]}, "trace_digest": digest(list(got))}
