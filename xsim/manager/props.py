"""Per-property drivers of manager-sim.  Each driver exposes

    generate(ctx, run) -> case      (pure function of seed/run; JSON-able)
    execute(ctx, case) -> Outcome   (deterministic given the interpreter's hash seed and build)

Outcome: dict(violation=None|{cls,msg,attrs,step}, digest, nontrivial, stats, extra)
"""
from ..common import rng_for, digest, canon, tuplify, same
from .model import Spec, path_str
from .gen import swarm_config, gen_spec, HistoryGen
from .execute import Exec, Violation, PROPAGATING


def _outcome(ex, viol, step, nontrivial, extra=None, trace_digest=None):
    return {"violation": (dict(viol.to_json(), step=step) if viol is not None else None),
            "nontrivial": bool(nontrivial), "stats": ex.stats if ex is not None else {},
            "extra": extra or {}, "trace_digest": trace_digest}


def case_from_json(j):
    return {"cfg": j["cfg"], "spec": j["spec"], "ops": [tuplify(o) for o in j["ops"]],
            **{k: tuplify(v) for k, v in j.items() if k not in ("cfg", "spec", "ops")}}


def gen_history_case(ctx, run, prop, **over):
    rc = rng_for(ctx.seed, prop, run, "cfg")
    cfg = swarm_config(rc, ctx.tier, **over)
    spec = gen_spec(rng_for(ctx.seed, prop, run, "spec"), cfg)
    hg = HistoryGen(rng_for(ctx.seed, prop, run, "ops"), cfg, spec)
    ops = hg.history()
    return {"cfg": cfg, "spec": spec.to_json(), "ops": ops}


# ---------------------------------------------------------------------------
# C01 / C02: contents and execution trace after every assignment
# ---------------------------------------------------------------------------
class C01:
    prop = "C01"

    @staticmethod
    def generate(ctx, run):
        return gen_history_case(ctx, run, "C01")

    @staticmethod
    def execute(ctx, case, prop="C01", check_trace=False, check_contents=True):
        spec = Spec.from_json(case["spec"])
        cfg = case["cfg"]
        ex = Exec(ctx.xd, spec, cfg["g_restricted"], cfg["salt"])
        nontrivial = False
        events = []
        inter = []
        i = -1
        try:
            for i, op in enumerate(case["ops"]):
                st = ex.step(op)
                if st is None:
                    continue
                events.append(len(st.trace))
                if st.exc is not None:
                    raise Violation(prop + ".exception", "%s raised %s: %s" % (op[0], type(st.exc).__name__, st.exc),
                                    exc=type(st.exc).__name__, g_cyclic=st.info.g_cyclic)
                if st.info.trig:
                    nontrivial = True
                    ex.count("updates_with_tasks")
                    ex.count("tasks_run_expected", len(st.info.trig))
                    if len(st.info.trig) >= 3:
                        ex.count("updates_ge3_tasks")
                    if st.info.g_cyclic_trig:
                        ex.count("updates_gcyclic")
                if check_trace:
                    r = ex.check_trace(st, prop)
                    if r is not None and r[2] >= 2:
                        inter.append((r[0], r[1]))
                if not check_contents:
                    # other properties' business (C01 / KF-1): do not continue on a diverged state
                    try:
                        ex.check_contents(st.info.values, "", st.info, prop)
                    except Violation:
                        ex.count("stopped_on_content_mismatch")
                        break
                else:
                    ex.check_contents(st.info.values, "after op %d (%s %s)" % (i, op[0], path_str(op[1]) if isinstance(op[1], tuple) else op[1]),
                                      st.info, prop)
        except Violation as v:
            return _outcome(ex, v, i, nontrivial, {"inter": inter})
        return _outcome(ex, None, None, nontrivial, {"inter": inter}, digest(events))


class C02(C01):
    prop = "C02"

    @staticmethod
    def generate(ctx, run):
        return gen_history_case(ctx, run, "C02")

    @staticmethod
    def execute(ctx, case):
        return C01.execute(ctx, case, prop="C02", check_trace=True, check_contents=False)


DRIVERS = {"C01": C01, "C02": C02}


# ---------------------------------------------------------------------------
# C03: history independence (refinement against a freshly built manager)
# ---------------------------------------------------------------------------
from . import oracles as O
from .world import World, run_traced


class C03:
    prop = "C03"
    WEIGHTS = {"unreg": 14, "load": 6, "refresh": 3, "cleanup": 1, "verify": 1, "regf": 6, "unregf": 5,
               "regk": 3, "unregk": 3, "setc": 3, "inpl": 6}

    @staticmethod
    def generate(ctx, run):
        rc = rng_for(ctx.seed, "C03", run, "cfg")
        cfg = swarm_config(rc, ctx.tier, weights_over=dict(C03.WEIGHTS))
        if cfg["max_depth"] == 1 and rc.random() < 0.6:
            cfg["max_depth"] = rc.choice([2, 3])      # nested targets are where the indices get interesting
        spec = gen_spec(rng_for(ctx.seed, "C03", run, "spec"), cfg)
        hg = HistoryGen(rng_for(ctx.seed, "C03", run, "ops"), cfg, spec)
        return {"cfg": cfg, "spec": spec.to_json(), "ops": hg.history()}

    @staticmethod
    def execute(ctx, case):
        prop = "C03"
        xd = ctx.xd
        spec = Spec.from_json(case["spec"])
        cfg = case["cfg"]
        ex = Exec(xd, spec, cfg["g_restricted"], cfg["salt"])
        nontrivial = False
        i = -1
        removed = 0
        try:
            twin = O.build_fresh_twin(World, xd, spec, ex.model, ex.world, cfg["salt"])
            for i, op in enumerate(case["ops"]):
                st = ex.step(op)
                if st is None:
                    continue
                where = "after op %d (%s)" % (i, op[0])
                # ---- (c) the same call on the fresh twin of the state before ----------
                tr2, exc2 = run_traced(lambda: twin.apply(op))
                if st.exc is not None:
                    raise Violation(prop + ".exception", "%s: %s raised %s: %s (fresh manager: %s)"
                                    % (where, op[0], type(st.exc).__name__, st.exc,
                                       "no exception" if exc2 is None else type(exc2).__name__),
                                    exc=type(st.exc).__name__)
                if exc2 is not None:
                    raise Violation(prop + ".twin_exception", "%s: the fresh manager raised %s: %s where the subject did not"
                                    % (where, type(exc2).__name__, exc2))
                if op[0] in ("unreg", "unregf", "unregk", "load") or (op[0] in ("setv", "sete", "inpl") and st.pre_defined):
                    removed += 1
                if st.info.start is not None:
                    _, e1, _ = ex.executed_tasks(st)
                    _, e2, _ = ex.executed_tasks(st, world=twin, trace=tr2)
                    if set(e1) != set(e2):
                        d = sorted(set(e1) ^ set(e2), key=repr)[0]
                        raise Violation(prop + ".triggered_set", "%s: task %s ran in %s only" %
                                        (where, d, "the subject" if d in e1 else "the fresh manager"),
                                        g_cyclic_trig=st.info.g_cyclic_trig)
                    if st.info.g_cyclic_trig:
                        ex.count("updates_gcyclic")
                        try:
                            ex.check_contents(st.info.values, where, st.info, prop)
                        except Violation:
                            # KF-1 territory (C01's known finding): the state has legitimately diverged
                            # from the model, nothing further can be attributed to C03
                            ex.count("stopped_on_kf1_divergence")
                            break
                    else:
                        c1, c2 = ex.world.contents(), twin.contents()
                        for loc in spec.leaves:
                            if not same(c1[loc], c2[loc]):
                                raise Violation(prop + ".follow_up", "%s: %s holds %r, in the fresh manager %r"
                                                % (where, path_str(loc), c1[loc], c2[loc]))
                        ex.check_contents(st.info.values, where, st.info, prop)
                    if st.info.trig:
                        ex.count("updates_with_tasks")
                # ---- (a) index supports ----------------------------------------------
                mgr = ex.world.mgr
                if ex.model.order:
                    nontrivial = nontrivial or removed > 0
                real_decl = O.real_decl_strings(mgr)
                exp_decl = O.expected_decl_strings(ex.model)
                if real_decl != exp_decl:
                    k = sorted(set(real_decl) ^ set(exp_decl)) or [k for k in real_decl if real_decl[k] != exp_decl[k]]
                    raise Violation(prop + ".tasks", "%s: registered tasks differ from the surviving definitions at %s: real %s, expected %s"
                                    % (where, k[0], real_decl.get(k[0]), exp_decl.get(k[0])))
                sup = O.support(mgr)
                d = O.diff_support(sup, O.support_from_tasks(mgr.tasks.values()))
                if d:
                    raise Violation(prop + ".index", "%s: index vs derivation from the registered tasks: %s" % (where, d))
                # a fresh twin of the state after (it is also the twin 'before' of the next op)
                if st.info.g_cyclic_trig:
                    # contents may legitimately differ (KF-1): the twin is rebuilt from the subject's contents
                    pass
                twin = O.build_fresh_twin(World, xd, spec, ex.model, ex.world, cfg["salt"])
                d = O.diff_support(sup, O.support(twin.mgr))
                if d:
                    raise Violation(prop + ".index_fresh", "%s: index vs fresh manager: %s" % (where, d))
                # ---- (b) self-check and queries -----------------------------------------
                tr, exc = run_traced(lambda: mgr.verify())
                if exc is not None:
                    raise Violation(prop + ".verify", "%s: verify() raised %s: %s" % (where, type(exc).__name__, exc))
                q1 = O.queries(ex.world)
                q2 = O.queries(twin)
                if q1 != q2:
                    for k in q1:
                        for q in q1[k]:
                            if q1[k][q] != q2[k][q]:
                                raise Violation(prop + ".query", "%s: %s of %s: subject %s, fresh manager %s"
                                                % (where, q, k, q1[k][q], q2[k][q]))
                # ---- (d) clone() agrees ---------------------------------------------------
                if i % 3 == 0:
                    d = O.diff_support(O.support(mgr), O.support(mgr.clone()))
                    if d:
                        raise Violation(prop + ".clone", "%s: clone() differs: %s" % (where, d))
        except Violation as v:
            return _outcome(ex, v, i, nontrivial)
        return _outcome(ex, None, None, nontrivial, None, digest(sorted(ex.stats.items())))


DRIVERS["C03"] = C03
