"""Per-property drivers of manager-sim.  Each driver exposes

    generate(ctx, run) -> case      (pure function of seed/run; JSON-able)
    execute(ctx, case) -> Outcome   (deterministic given the interpreter's hash seed and build)

Outcome: dict(violation=None|{cls,msg,attrs,step}, digest, nontrivial, stats, extra)
"""
from ..common import rng_for, digest, canon, tuplify
from .model import Spec, path_str
from .gen import swarm_config, gen_spec, HistoryGen
from .execute import Exec, Violation, PROPAGATING


def _outcome(ex, viol, step, nontrivial, extra=None, trace_digest=None):
    return {"violation": (dict(viol.to_json(), step=step) if viol is not None else None),
            "nontrivial": bool(nontrivial), "stats": ex.stats if ex is not None else {},
            "extra": extra or {}, "trace_digest": trace_digest}


def case_from_json(j):
    return {"cfg": j["cfg"], "spec": j["spec"], "ops": [tuplify(o) for o in j["ops"]],
            **{k: tuplify(v) for k, v in j.items() if k not in ("cfg", "spec", "ops")}}


def gen_history_case(ctx, run, prop, **over):
    rc = rng_for(ctx.seed, prop, run, "cfg")
    cfg = swarm_config(rc, ctx.tier, **over)
    spec = gen_spec(rng_for(ctx.seed, prop, run, "spec"), cfg)
    hg = HistoryGen(rng_for(ctx.seed, prop, run, "ops"), cfg, spec)
    ops = hg.history()
    return {"cfg": cfg, "spec": spec.to_json(), "ops": ops}


# ---------------------------------------------------------------------------
# C01 / C02: contents and execution trace after every assignment
# ---------------------------------------------------------------------------
class C01:
    prop = "C01"

    @staticmethod
    def generate(ctx, run):
        return gen_history_case(ctx, run, "C01")

    @staticmethod
    def execute(ctx, case, prop="C01", check_trace=False, check_contents=True):
        spec = Spec.from_json(case["spec"])
        cfg = case["cfg"]
        ex = Exec(ctx.xd, spec, cfg["g_restricted"], cfg["salt"])
        nontrivial = False
        events = []
        inter = []
        i = -1
        try:
            for i, op in enumerate(case["ops"]):
                st = ex.step(op)
                if st is None:
                    continue
                events.append(len(st.trace))
                if st.exc is not None:
                    raise Violation(prop + ".exception", "%s raised %s: %s" % (op[0], type(st.exc).__name__, st.exc),
                                    exc=type(st.exc).__name__, g_cyclic=st.info.g_cyclic)
                if st.info.trig:
                    nontrivial = True
                    ex.count("updates_with_tasks")
                    ex.count("tasks_run_expected", len(st.info.trig))
                    if len(st.info.trig) >= 3:
                        ex.count("updates_ge3_tasks")
                    if st.info.g_cyclic_trig:
                        ex.count("updates_gcyclic")
                if check_trace:
                    r = ex.check_trace(st, prop)
                    if r is not None and r[2] >= 2:
                        inter.append((r[0], r[1]))
                if not check_contents:
                    # other properties' business (C01 / KF-1): do not continue on a diverged state
                    try:
                        ex.check_contents(st.info.values, "", st.info, prop)
                    except Violation:
                        ex.count("stopped_on_content_mismatch")
                        break
                else:
                    ex.check_contents(st.info.values, "after op %d (%s %s)" % (i, op[0], path_str(op[1]) if isinstance(op[1], tuple) else op[1]),
                                      st.info, prop)
        except Violation as v:
            return _outcome(ex, v, i, nontrivial, {"inter": inter})
        return _outcome(ex, None, None, nontrivial, {"inter": inter}, digest(events))


class C02(C01):
    prop = "C02"

    @staticmethod
    def generate(ctx, run):
        return gen_history_case(ctx, run, "C02")

    @staticmethod
    def execute(ctx, case):
        return C01.execute(ctx, case, prop="C02", check_trace=True, check_contents=False)


DRIVERS = {"C01": C01, "C02": C02}
