"""The real side: containers, a real xdeps Manager, and the interpreter of abstract ops."""
import math
import operator

from .. import containers as C
from ..containers import _Ctx, SimDict, SimList, SimObj, SimFuncs, raw_get, raw_items
from .model import prefixes, path_str, step_kind

_REAL_BIN = {
    "+": operator.add, "-": operator.sub, "*": operator.mul, "/": operator.truediv,
    "//": operator.floordiv, "%": operator.mod, "**": operator.pow,
    "&": operator.and_, "|": operator.or_, "^": operator.xor,
    "<<": operator.lshift, ">>": operator.rshift,
    "<": operator.lt, "<=": operator.le, ">": operator.gt, ">=": operator.ge,
}
_REAL_UN = {"-": operator.neg, "+": operator.pos, "~": operator.invert}
_REAL_BI = {"abs": lambda a: abs(a), "round": lambda a, n: round(a, n), "divmod": lambda a, n: divmod(a, n),
            "floor": math.floor, "ceil": math.ceil, "trunc": math.trunc}
_INPLACE = {"+": operator.iadd, "-": operator.isub, "*": operator.imul, "/": operator.itruediv,
            "//": operator.ifloordiv, "%": operator.imod, "**": operator.ipow,
            "<<": operator.ilshift, ">>": operator.irshift, "^": operator.ixor}


def respell(txt):
    """another spelling of the same reference text (other quote character, or harmless white space)"""
    if "'" in txt and '"' not in txt and "\\" not in txt:
        return txt.replace("'", '"')
    if "[" in txt:
        return txt.replace("[", "[ ", 1)
    if "." in txt:
        return txt.replace(".", " .", 1)
    return txt + " "


def rkey(kind, key):
    """the key object really passed to the container / reference for a path step"""
    if kind == "n":
        import numpy as np
        return np.int64(key)
    if kind == "s":
        import numpy as np
        return np.str_(key)
    return key


def _nav(roots, path):
    c = roots[path[0]]
    for kind, key in path[1:]:
        c = raw_get(c, key)
    return c


def user_get(roots, path):
    """Read a location the way user code does (logged, faultable)."""
    c = _nav(roots, path[:-1])
    kind, key = path[-1]
    return c[rkey(kind, key)] if kind in ("i", "n", "s") else getattr(c, key)


def user_set(roots, path, v):
    c = _nav(roots, path[:-1])
    kind, key = path[-1]
    if kind in ("i", "n", "s"):
        c[rkey(kind, key)] = v
    else:
        setattr(c, key, v)


class FtAction:
    """User callback of a FunctionTask: reads deps / writes targets through the
    simulated containers (so it is logged and can be failed on schedule).  Holds the
    root containers only (picklable together with the manager)."""

    def __init__(self, roots, name, deps, targets, coefs, refs=None):
        self.roots, self.name, self.deps, self.targets, self.coefs = roots, name, deps, targets, coefs
        # refs: the action assigns its results through the manager's references (as the action of tests/test_tasks.py
        # does: ref['c'] = ...), i.e. an assignment from inside a running update, instead of writing the container
        self.refs = refs

    def __call__(self):
        C._event("act", 0, self.name)
        vals = [user_get(self.roots, d) for d in self.deps]
        for j, (row, t) in enumerate(zip(self.coefs, self.targets)):
            tot = row[-1]
            for c, v in zip(row, vals):
                tot = tot + c * v
            if self.refs is not None:
                r = self.refs[j]
                r._manager.set_value(r, tot)
            else:
                user_set(self.roots, t, tot)


class World:
    def __init__(self, spec, xd, salt="", wrap=None):
        """wrap: {label: key} - the tree of that root lives one level down, in rootcontainer[key]
        (used to rebind a label to a nested reference in copy_expr_from)."""
        self.spec = spec
        self.xd = xd
        self.salt = salt
        self.wrap = dict(wrap or {})
        self.mgr = xd.Manager()
        self.sidpath = {}
        self.rootobj = {}
        self.rootref = {}
        self.basecont = {}     # label -> container holding the spec tree of that root
        for label, mode, ctype, children in spec.roots:
            c = self._mk(ctype, children, (label,))
            self.basecont[label] = c
            if label in self.wrap:
                outer = SimDict([(self.wrap[label], c)])
                self.rootobj[label] = outer
                self.rootref[label] = self.mgr.ref(outer, label)
            else:
                self.rootobj[label] = c
                self.rootref[label] = self.mgr.ref(c, label) if mode == "ref" else self.mgr.refattr(c, label)
        if spec.funcs:
            self.rootobj["f"] = SimFuncs()
            self.rootref["f"] = self.mgr.ref(self.rootobj["f"], "f")
        self.ftasks = {}
        self.knobs = {}

    # ---- construction ----------------------------------------------------
    def _mk(self, ctype, children, path):
        items = []
        for key, node in children:
            kind = step_kind(ctype)
            if node[0] == "leaf":
                items.append((key, node[2]))
            else:
                items.append((key, self._mk(node[0], node[1], path + ((kind, key),))))
        return self._new_container(ctype, items, path)

    def _new_container(self, ctype, items, path):
        if ctype in ("dict", "npdict"):
            c = SimDict(items)
        elif ctype in ("list", "nplist"):
            c = SimList([v for _, v in items])
        else:
            c = SimObj(**dict(items))
        self.sidpath[raw_get(c, "_sid") if ctype == "obj" else c._sid] = path
        return c

    @classmethod
    def adopt(cls, spec, xd, salt, mgr, rootobj, ftasks=None, knobs=None):
        """A World around a restored manager and containers (after a pickle restart)."""
        w = cls.__new__(cls)
        w.spec, w.xd, w.salt, w.wrap = spec, xd, salt, {}
        w.mgr = mgr
        w.rootobj = rootobj
        w.basecont = {k: v for k, v in rootobj.items() if k != "f"}
        w.rootref = dict(mgr.containers)
        w.sidpath = {}
        for label, obj in rootobj.items():
            if label != "f":
                w._index_sids(obj, (label,))
        w.ftasks = dict(ftasks or {})
        w.knobs = dict(knobs or {})
        return w

    def _index_sids(self, c, path):
        sid = object.__getattribute__(c, "_sid")
        self.sidpath[sid] = path
        kind = step_kind(self.spec.containers.get(path) or self.spec.root_mode.get(path[0], (None, None))[1]) \
            if len(path) > 1 or path[0] in self.spec.root_mode else ("a" if isinstance(c, SimObj) else "i")
        for k, v in raw_items(c):
            if isinstance(v, (SimDict, SimList, SimObj)):
                self._index_sids(v, path + ((kind, k),))

    # ---- refs and expressions ---------------------------------------------
    def ref(self, path):
        r = self.rootref[path[0]]
        if path[0] in self.wrap:
            r = r[self.wrap[path[0]]]
        for kind, key in path[1:]:
            if kind in ("i", "n", "s"):
                r = r[rkey(kind, key)]
            elif kind == "a":
                r = getattr(r, key)
            else:
                r = r[self.ref(key)]
        return r

    def build(self, ast):
        t = ast[0]
        if t == "lit":
            return ast[1]
        if t == "nplit":
            import numpy as np
            return np.float64(ast[1])
        if t == "ref":
            return self.ref(ast[1])
        if t == "bin":
            a, b = self.build(ast[2]), self.build(ast[3])
            if ast[1] == "==":
                return a._eq(b)
            if ast[1] == "!=":
                return a._neq(b)
            return _REAL_BIN[ast[1]](a, b)
        if t == "un":
            return _REAL_UN[ast[1]](self.build(ast[2]))
        if t == "bi":
            return _REAL_BI[ast[1]](self.build(ast[2]), *ast[3])
        if t == "idx":
            return self.build(ast[1])[ast[2]]
        if t == "call":
            f = getattr(self.rootref["f"], ast[1])
            return f(*[self.build(a) for a in ast[2]], **{k: self.build(a) for k, a in ast[3]})
        raise AssertionError(ast)

    # ---- user-level access (logged, faultable) ------------------------------
    def _container(self, path):
        c = self.basecont[path[0]]
        for kind, key in path[1:]:
            c = raw_get(c, key)
        return c

    def user_get(self, path):
        return user_get(self.basecont, path)

    def user_set(self, path, v):
        user_set(self.basecont, path, v)

    # ---- observation (never logged) ------------------------------------------
    def contents(self):
        out = {}
        for l in self.spec.leaves:
            try:
                out[l] = raw_get(self._container(l[:-1]), l[-1][1])
            except Exception as e:  # structure destroyed
                out[l] = ("<missing>", type(e).__name__)
        return out

    def event_loc(self, ev):
        """Leaf/container path a read/write event touched (None if unknown container)."""
        base = self.sidpath.get(ev[1])
        if base is None:
            return None
        ctype = self.spec.containers.get(base) or self.spec.root_mode.get(base[0], (None, None))[1]
        kind = step_kind(ctype)
        return base + ((kind, ev[2]),)

    # ---- assignment styles -----------------------------------------------------
    def _assign(self, path, value, style):
        owner = self.ref(path[:-1]) if (len(path) > 2 or path[0] in self.wrap) else self.rootref[path[0]]
        kind, key = path[-1]
        if style == "mgr":
            self.mgr.set_value(self.ref(path), value)
        elif kind == "a" or (style == "attr" and isinstance(key, str) and key.isidentifier()
                              and self.spec.root_mode.get(path[0], ("", ""))[0] == "refattr" and len(path) == 2
                              and path[0] not in self.wrap):
            setattr(owner, key, value)
        else:
            owner[rkey(kind, key)] = value

    def taskid(self, tid):
        if tid[0] == "e":
            return self.ref(tid[1])
        return "%s:%s" % (tid[0], tid[1])

    # ---- the interpreter ---------------------------------------------------------
    def apply(self, op):
        kind = op[0]
        mgr = self.mgr
        if kind == "setv":
            self._assign(op[1], op[2], op[3] if len(op) > 3 else "item")
        elif kind == "sete":
            self._assign(op[1], self.build(op[2]), op[3] if len(op) > 3 else "item")
        elif kind == "inpl":
            path, o, operand = op[1], op[2], op[3]
            owner = self.ref(path[:-1]) if (len(path) > 2 or path[0] in self.wrap) else self.rootref[path[0]]
            k, key = path[-1]
            x = self.build(operand)
            # exactly what `owner[key] op= x` does
            if k == "a":
                tmp = getattr(owner, key)
                tmp = _INPLACE[o](tmp, x)
                setattr(owner, key, tmp)
            else:
                tmp = owner[rkey(k, key)]
                tmp = _INPLACE[o](tmp, x)
                owner[rkey(k, key)] = tmp
        elif kind == "unreg":
            mgr.unregister(self.ref(op[1]))
        elif kind == "setc":
            path, values = op[1], op[2]
            ctype = self.spec.containers[path]
            ch = self.spec.children[path]
            items = [(c[-1][1], v) for c, v in zip(ch, values)]
            newc = self._new_container(ctype, items, path)
            self._assign(path, newc, op[3] if len(op) > 3 else "item")
        elif kind == "regf":
            _, name, deps, targets, coefs = op[:5]
            # (op[6], "hand the sets over as lists with repeated entries", is ignored: FunctionTask declares Set[BaseRef] and
            #  the unmodified code itself mishandles a repeated entry - register counts it twice, unregister of a reader once)
            aslist = False
            tdeps = [] if aslist else set()
            for d in deps:
                (tdeps.extend if aslist else tdeps.update)(self.ref(p) for p in prefixes(d))
            ttar = [] if aslist else set()
            for t in targets:
                # as lists, an enclosing container shared by two targets is listed twice
                (ttar.extend if aslist else ttar.update)(self.ref(p) for p in prefixes(t))
            via = len(op) > 7 and op[7] and not (len(op) > 5 and op[5])
            act = FtAction(self.basecont, name, deps, targets, coefs, refs=[self.ref(t) for t in targets] if via else None)
            reftid = len(op) > 5 and op[5]
            task = self.xd.tasks.FunctionTask(self.ref(targets[0]) if reftid else "f:%s" % name, act, ttar, tdeps)
            mgr.register(task)
            self.ftasks[name] = task
            if deps:
                mgr.run_tasks(mgr.find_tasks(task.dependencies))
            else:
                # nothing triggers a task without dependencies: the user runs it (and whatever depends on it) once
                mgr.run_tasks([mgr.tasks[t] for t in mgr.find_taskids_from_tasks([task.taskid])])
        elif kind == "unregf":
            mgr.unregister(self.ftasks[op[1]].taskid)
            del self.ftasks[op[1]]
        elif kind == "regk":
            _, name, source, weights, targets = op[:5]
            task = self.xd.tasks.LinearKnob("k:%s" % name, self.ref(source), list(weights),
                                            [self.ref(t) for t in targets])
            mgr.register(task)
            self.knobs[name] = task
        elif kind == "unregk":
            mgr.unregister("k:%s" % op[1])
            del self.knobs[op[1]]
        elif kind == "setfunc":
            # re-assign a slot of the function container through its reference
            setattr(self.rootref["f"], op[1], C.FUNCS[op[2]])
        elif kind == "load":
            dump = []
            seen = set()
            for p, a in op[1]:
                txt = str(self.ref(p))
                if p in seen:
                    txt = respell(txt)      # the same target once more, written differently
                seen.add(p)
                dump.append((txt, str(self.build(a))))
            mgr.load(dump, overwrite=bool(op[2]))
            mgr.run_tasks(mgr.find_tasks())
        elif kind == "copyfrom":
            # expressions defined in ANOTHER manager over an equivalent container tree, copied label by label
            src = World(self.spec, self.xd, self.salt)
            for p, a in op[1]:
                src.mgr.register(self.xd.tasks.ExprTask(src.ref(p), src.build(a)))
            for label, _mode, _ctype, _children in self.spec.roots:
                mgr.copy_expr_from(src.mgr, label, overwrite=bool(op[2]))
            mgr.run_tasks(mgr.find_tasks())
        elif kind == "refresh":
            mgr.refresh()
        elif kind == "cleanup":
            mgr.cleanup()
        elif kind == "verify":
            mgr.verify()
        elif kind == "freeze":
            mgr.freeze_tree()
        elif kind == "unfreeze":
            mgr.unfreeze_tree()
        else:
            raise AssertionError(op)


def run_traced(fn, fault=None):
    """Run fn() with tracing on; returns (trace, exception or None)."""
    tr = []
    _Ctx.trace = tr
    _Ctx.fault = fault
    _Ctx.fired = None
    exc = None
    try:
        fn()
    except BaseException as e:  # noqa
        if isinstance(e, (KeyboardInterrupt, SystemExit)):
            _Ctx.trace = None
            _Ctx.fault = None
            raise
        exc = e
    finally:
        _Ctx.trace = None
        _Ctx.fault = None
    return tr, exc
