"""Observation of a real manager through its public surface, and construction of the
*fresh twin* (a new manager in which only the surviving definitions are registered).

Refs are identified by their printed path (that is what BaseRef.__eq__ compares).
"""
from ..containers import raw_get, raw_set, raw_items
from .model import path_str, prefixes, decl_deps

INDICES = ("rdeps", "rtasks", "deptasks", "tartasks")


def support(mgr):
    """Keys with non-empty entries -> sorted members, for the four reverse indices."""
    out = {}
    for name in INDICES:
        dct = getattr(mgr, name)
        s = {}
        for k, members in list(dct.items()):
            ms = sorted(str(x) for x in members)
            if ms:
                s[str(k)] = ms
        out[name] = s
    return out


def support_from_tasks(tasks):
    """What the four indices must contain, derived only from the public attributes
    taskid / targets / dependencies of the registered tasks."""
    tasks = list(tasks)
    rdeps, rtasks, deptasks, tartasks = {}, {}, {}, {}
    deps_s = []
    tars_s = []
    for t in tasks:
        deps_s.append(set(str(d) for d in t.dependencies))
        tars_s.append(set(str(x) for x in t.targets))
    for t, ds, ts in zip(tasks, deps_s, tars_s):
        tid = str(t.taskid)
        for d in ds:
            deptasks.setdefault(d, set()).add(tid)
            if ts:
                rdeps.setdefault(d, set()).update(ts)
        for x in ts:
            tartasks.setdefault(x, set()).add(tid)
    for a, ta in zip(tasks, tars_s):
        for b, db in zip(tasks, deps_s):
            if not ta.isdisjoint(db):
                rtasks.setdefault(str(a.taskid), set()).add(str(b.taskid))
    return {"rdeps": {k: sorted(v) for k, v in rdeps.items()},
            "rtasks": {k: sorted(v) for k, v in rtasks.items()},
            "deptasks": {k: sorted(v) for k, v in deptasks.items()},
            "tartasks": {k: sorted(v) for k, v in tartasks.items()}}


def diff_support(a, b):
    """First difference between two support dicts, or None."""
    for name in INDICES:
        x, y = a[name], b[name]
        if x != y:
            for k in sorted(set(x) | set(y)):
                if x.get(k) != y.get(k):
                    return "%s[%s]: %s vs %s" % (name, k, x.get(k), y.get(k))
    return None


def expected_decl_strings(model):
    """taskid string -> (sorted dep strings, sorted target strings) from the MODEL."""
    out = {}
    for tid, (deps, tars) in model.tasks_decl().items():
        name = model.tid_str(tid)
        out[name] = (sorted(path_str(d) for d in deps), sorted(path_str(t) for t in tars))
    return out


def real_decl_strings(mgr):
    """declared dependencies / targets of the registered tasks, as printed paths.  An item or attribute taken from
    the RESULT of an expression (divmod(x, 2)[0]) is itself listed as a dependency by xdeps; it is not a location of a
    container and is left out of the comparison with the model."""
    labels = tuple(mgr.containers)

    def is_location(s):
        return any(s == l or s.startswith(l + "[") or s.startswith(l + ".") for l in labels)
    out = {}
    for tid, t in mgr.tasks.items():
        out[str(tid)] = (sorted(set(s for s in (str(d) for d in t.dependencies) if is_location(s))),
                         sorted(set(str(x) for x in t.targets)))
    return out


def definitions(mgr):
    """Sorted (taskid text, expression text | task class name)."""
    out = []
    for tid, t in mgr.tasks.items():
        e = getattr(t, "expr", None)
        out.append((str(tid), str(e) if e is not None else "<%s>" % type(t).__name__))
    out.sort()
    return out


def queries(world, locs=None):
    """Answers of the public queries for every leaf (and nested container) location."""
    mgr = world.mgr
    spec = world.spec
    if locs is None:
        locs = list(spec.leaves) + list(spec.containers)
    out = {}
    for p in locs:
        r = world.ref(p)
        fd = mgr.find_deps([r])
        e = r._expr
        out[path_str(p)] = {
            "find_deps": sorted(str(x) for x in fd),
            "dependants": sorted(str(x) for x in r._find_dependant_targets()),
            "expr": None if e is None else str(e),
            "tasks": sorted(str(x) for x in r._tasks),
        }
    return out


def find_deps_order_ok(world, loc):
    """find_deps returns a list in which the start comes first and no ref precedes a ref
    it (directly) depends on through rdeps restricted to the returned set, when that
    sub-graph is acyclic.  Returns an error text or None."""
    mgr = world.mgr
    r = world.ref(loc)
    lst = mgr.find_deps([r])
    pos = {}
    for i, x in enumerate(lst):
        s = str(x)
        if s in pos:
            return "find_deps(%s) lists %s twice" % (r, s)
        pos[s] = i
    return None


def snapshot(world, with_queries=True):
    """Everything C17/C18/C12 call 'definitions, data and query answers'."""
    snap = {"defs": definitions(world.mgr), "support": support(world.mgr),
            "contents": {path_str(k): v for k, v in world.contents().items()}}
    if with_queries:
        snap["queries"] = queries(world)
    # the namespace: which container each label of the manager stands for
    ns = []
    for label, r in world.mgr.containers.items():
        o = getattr(r, "_owner", None)
        try:
            sid = object.__getattribute__(o, "_sid")
        except AttributeError:
            sid = None
        ns.append((str(label), str(world.sidpath.get(sid, sid)) if sid is not None else type(o).__name__))
    snap["namespace"] = sorted(ns)
    return snap


def diff_snapshot(a, b, same):
    if a["defs"] != b["defs"]:
        sa, sb = set(a["defs"]), set(b["defs"])
        return "definitions differ: only before %s / only after %s" % (sorted(sa - sb)[:2], sorted(sb - sa)[:2])
    d = diff_support(a["support"], b["support"])
    if d:
        return "index support differs: " + d
    for k in a["contents"]:
        if not same(a["contents"][k], b["contents"].get(k)):
            return "content of %s differs: %r vs %r" % (k, a["contents"][k], b["contents"].get(k))
    if "namespace" in a and "namespace" in b and a["namespace"] != b["namespace"]:
        return "container labels differ: %s vs %s" % ([x for x in a["namespace"] if x not in b["namespace"]][:2],
                                                       [x for x in b["namespace"] if x not in a["namespace"]][:2])
    if "queries" in a and "queries" in b and a["queries"] != b["queries"]:
        for k in a["queries"]:
            if a["queries"][k] != b["queries"].get(k):
                for q in a["queries"][k]:
                    if a["queries"][k][q] != b["queries"][k][q]:
                        return "query %s(%s) differs: %s vs %s" % (q, k, a["queries"][k][q], b["queries"][k][q])
    return None


def build_fresh_twin(world_cls, xd, spec, model, source_world, salt=""):
    """A new manager over deep-copied containers (current raw contents of source_world)
    in which exactly the model's surviving tasks are registered, in registration order."""
    from .world import FtAction
    w2 = world_cls(spec, xd, salt)
    cur = source_world.contents()
    for loc, v in cur.items():
        raw_set(w2._container(loc[:-1]), loc[-1][1], v)
    if "f" in w2.rootobj:
        from ..containers import FUNCS
        for slot, impl in model.funcs.items():
            object.__setattr__(w2.rootobj["f"], slot, FUNCS[impl])
    mgr = w2.mgr
    T = xd.tasks
    for tid in model.order:
        if tid[0] == "e":
            mgr.register(T.ExprTask(w2.ref(tid[1]), w2.build(model.defs[tid[1]])))
        elif tid[0] == "f":
            ft = model.ftasks[tid[1]]
            tdeps = set()
            for d in ft["deps"]:
                tdeps.update(w2.ref(p) for p in prefixes(d))
            ttar = set()
            for t in ft["targets"]:
                ttar.update(w2.ref(p) for p in prefixes(t))
            act = FtAction(w2.basecont, tid[1], ft["deps"], ft["targets"], ft["coefs"])
            task = T.FunctionTask(w2.ref(ft["targets"][0]) if ft.get("reftid") else "f:%s" % tid[1], act, ttar, tdeps)
            mgr.register(task)
            w2.ftasks[tid[1]] = task
        else:
            kn = model.knobs[tid[1]]
            task = T.LinearKnob("k:%s" % tid[1], w2.ref(kn["source"]), list(kn["weights"]),
                                [w2.ref(t) for t in kn["targets"]])
            mgr.register(task)
            w2.knobs[tid[1]] = task
    return w2
