"""Seeded generation of worlds (Spec) and histories (op lists) for manager-sim.

Everything is drawn from the random.Random handed in; nothing here hashes a
string, iterates a set or looks at a clock, so the same stream gives the same
history under every PYTHONHASHSEED (checked by the determinism self-test).
"""
import keyword as _keyword
from .model import Spec, Model, ModelReject, model_step, has_ref

LETTERS = "abcdefghijklmnopqrstuvwxyz"
FLOATS = [0.5, -1.5, 2.25, 3.0, 0.0, 0.001, 7.75, -0.125, 100.0, 1.0, -2.0, 0.1, 12.5, -7.0]


def mk_salt(rng):
    return "".join(rng.choice(LETTERS + "0123456789") for _ in range(rng.choice([2, 3, 4])))


def gen_value(rng, typ):
    if typ == "i":
        r = rng.random()
        if r < 0.8:
            return rng.randint(-9, 9)
        if r < 0.95:
            return rng.randint(-1000, 1000)
        return rng.choice([0, 1, -1, 2 ** 31, -(2 ** 33) + 1, 10 ** 6])
    r = rng.random()
    if r < 0.5:
        return rng.choice(FLOATS)
    if r < 0.9:
        return round(rng.uniform(-10, 10), rng.choice([1, 2, 3]))
    return float(rng.randint(-5, 5))


def gen_spec(rng, cfg):
    """cfg: n_leaves, max_depth (1 = flat), lists (bool), salt, funcs"""
    salt = cfg["salt"]
    n_leaves = cfg["n_leaves"]
    max_depth = cfg["max_depth"]
    n_roots = rng.choice([1, 1, 2, 2, 3])
    kinds = [("ref", "dict"), ("ref", "obj"), ("refattr", "dict")]
    counter = [0]
    boolkey = [False]
    lod_done = [False]

    def key_for(ctype):
        i = counter[0]
        counter[0] += 1
        nm = LETTERS[i % 26] + (str(i // 26) if i >= 26 else "")
        if ctype == "obj":
            if rng.random() < 0.12:
                return "_%s_%s" % (nm, salt)     # a data attribute whose name starts with an underscore
            return "%s_%s" % (nm, salt)
        r = rng.random()
        if ctype == "npdict":
            return "%s%s" % (nm, salt)          # string keys, handed over as numpy.str_ (as when taken from an array of names)
        if cfg.get("npkeys") and r < 0.06 and not boolkey[0]:
            boolkey[0] = True
            return True              # a bool key in a dict
        if r < 0.1:
            return 100 + i           # int key in a dict
        if r < 0.15:
            return "%s %s'q" % (nm, salt)  # key with space and quote
        if r < 0.2:
            return "r%s_%s" % (salt, nm)   # key that contains a container label (r<salt> is the first root)
        if r < 0.23:
            return "%s[%s].x" % (nm, salt)  # key that looks like a path
        if r < 0.30 and r >= 0.27:
            return (i,) if rng.random() < 0.6 else (i, i + 1)     # tuple keys (a multi-index), also of length one
        if r < 0.27:
            # non-ASCII text in a key: a character of the basic plane, or one beyond it (U+1D54F, U+1F600)
            return "%s%s%s" % (nm, rng.choice(["\u00e9", "\U0001d54f", "\U0001f600", "\u4e2d"]), salt)
        if r < 0.33:
            # characters that print escaped inside a quoted key: backslash, newline, tab
            return "%s%s%s" % (nm, rng.choice(["\\", "\n", "\t", "\\n"]), salt)
        return "%s%s" % (nm, salt)

    def leaf():
        typ = "f" if rng.random() < 0.6 else "i"
        return ("leaf", typ, gen_value(rng, typ))

    def children(ctype, n, depth):
        out = []
        if ctype in ("list", "nplist"):
            typ = "f" if rng.random() < 0.5 else "i"
            return tuple((i, ("leaf", typ, gen_value(rng, typ))) for i in range(max(n, 2)))
        left = n
        while left > 0:
            force_lod = bool(cfg.get("lod_bias")) and not lod_done[0] and depth < max_depth and left >= 4
            if force_lod or (depth < max_depth and left >= 2 and rng.random() < 0.35):
                sub = rng.randint(2, min(left, 4))
                choices = ["dict", "obj"] + (["list"] if cfg.get("lists", True) else [])
                ct = "list" if force_lod else rng.choice(choices)
                if ct == "list" and cfg.get("npkeys") and rng.random() < 0.5:
                    ct = "nplist"       # a list whose elements are addressed with numpy integer keys
                if ct == "dict" and cfg.get("npkeys") and rng.random() < 0.4:
                    ct = "npdict"       # a dict whose string keys are addressed with numpy.str_ keys
                if ct == "list" and left >= 4 and cfg.get("lod", True) and (force_lod or rng.random() < 0.35):
                    lod_done[0] = True
                    # a list of records: dicts with the same keys, so that rows[i]['gain'] exists for every i
                    nrec = 2 if left < 6 or rng.random() < 0.6 else 3
                    rk = [(key_for("dict"), "f" if rng.random() < 0.6 else "i") for _ in range(2)]
                    recs = tuple((j, ("dict", tuple((k, ("leaf", t, gen_value(rng, t))) for k, t in rk))) for j in range(nrec))
                    out.append((key_for(ctype), ("list", recs)))
                    left -= 2 * nrec
                    continue
                out.append((key_for(ctype), (ct, children(ct, sub, depth + 1))))
                left -= sub
            else:
                out.append((key_for(ctype), leaf()))
                left -= 1
        return tuple(out)

    roots = []
    share = [n_leaves // n_roots + (1 if i < n_leaves % n_roots else 0) for i in range(n_roots)]
    labels = ["r", "o", "g", "s", "t"]
    for i in range(n_roots):
        mode, ctype = rng.choice(kinds)
        if ctype == "dict" and mode == "ref" and cfg.get("npkeys") and rng.random() < 0.3:
            ctype = "npdict"
        label = "%s%s" % (labels[i], salt if cfg.get("salt_labels", True) else "")
        if _keyword.iskeyword(label) or label in ("f", "math", "None", "True", "False", "round", "abs", "divmod", "set", "str", "sum",
                                                   "sorted", "slice", "type", "tuple", "super", "open", "oct", "ord", "object", "range",
                                                   "repr", "reversed", "getattr", "globals", "setattr", "staticmethod"):
            # 'r' + 'aise', 'o' + 'r', 't' + 'ry' ...: a label must be usable as a name in printed text; 'r' + 'ound' would
            # shadow the builtin that printed text calls (eval then builds a call of the *container*, which prints alike)
            label += "q"
        roots.append((label, mode, ctype, children(ctype, max(share[i], 1), 1)))
    return Spec(tuple(roots), funcs=cfg.get("funcs", True))


class ExprGen:
    def __init__(self, rng, spec, model, cfg):
        self.rng, self.spec, self.model, self.cfg = rng, spec, model, cfg
        self.ileaves = [l for l in spec.leaves if spec.leaf_type[l] == "i"]
        self.fleaves = [l for l in spec.leaves if spec.leaf_type[l] == "f"]
        self.lists = [p for p, ct in spec.containers.items() if ct in ("list", "nplist")
                      and all(c in spec.leaf_type for c in spec.children[p])]
        # lists of records (every element a container with the same keys): rows[<key>][<field>]
        self.lods = [p for p, ct in spec.containers.items() if ct == "list" and spec.children[p]
                     and all(c in spec.containers for c in spec.children[p])]
        self.leafconts = [p for p in spec.containers
                          if all(c in spec.leaf_type for c in spec.children[p])]
        self.ops_off = set(cfg.get("ops_off", ()))
        if cfg.get("nplit"):
            # a comparison involving a numpy scalar yields numpy.bool_, whose ~ - + differ from python's bool:
            # value semantics of numpy types are not what these workloads are about
            self.ops_off.add("cmp")
        self.no_eqne = bool(cfg.get("no_eqne", False))
        self.keyleaf = {}          # leaf used as a computed key -> length of the list it indexes

    def lit(self, typ):
        rng = self.rng
        if typ == "i":
            return ("lit", rng.choice([0, 1, 2, 3, -1, -2, -3, 5, 7, 10]))
        if self.cfg.get("nplit") and rng.random() < 0.3:
            return ("nplit", rng.choice([0.5, 2.0, -1.5, 0.25, 3.0]))
        return ("lit", rng.choice([0.5, 2.0, -1.5, 0.25, 3.0, 1e-3, 1.5e2, -0.75, 1.0, 0.0, -0.0, -2e-05]))

    def pick(self, cands):
        cands = [c for c in cands if c[0] not in self.ops_off]
        tot = sum(c[1] for c in cands)
        x = self.rng.random() * tot
        for c in cands:
            x -= c[1]
            if x <= 0:
                return c[0]
        return cands[-1][0]

    def ref_atom(self, typ):
        rng = self.rng
        pool = self.ileaves if typ == "i" else (self.fleaves + self.ileaves if rng.random() < 0.3 else self.fleaves)
        if not pool:
            pool = self.ileaves or self.fleaves
        if typ == "i" and not self.ileaves:
            return None
        return ("ref", rng.choice(pool))

    def key_leaf(self, n):
        """an int leaf to index a list of length n with: preferably one that holds a valid index right now"""
        m = self.model
        good = [l for l in self.ileaves if not m.is_derived(l) and isinstance(m.val.get(l), int)
                and not isinstance(m.val.get(l), bool) and 0 <= m.val[l] < n]
        l = self.rng.choice(good if (good and self.rng.random() < 0.8) else self.ileaves)
        self.keyleaf[l] = n
        return l

    def gen_arg(self, typ, depth, need_ref):
        """argument of a call: CallRef prints arguments with repr(), a numpy scalar would print as np.float64(..)"""
        keep = self.cfg.get("nplit")
        self.cfg["nplit"] = False
        try:
            return self.gen(typ, depth, need_ref)
        finally:
            self.cfg["nplit"] = keep

    def gen(self, typ, depth, need_ref=True):
        rng = self.rng
        if depth <= 0 or rng.random() < 0.25:
            if need_ref or rng.random() < 0.7:
                a = self.ref_atom(typ)
                if a is not None:
                    return a
                if need_ref:
                    # no int leaf: an int expression from a float one
                    return ("bi", rng.choice(["floor", "ceil", "trunc"]), self.ref_atom("f"), ())
            return self.lit(typ)
        if typ == "i":
            k = self.pick([("arith", 4), ("bitw", 2), ("shift", 1), ("un", 2), ("abs", 1), ("divlit", 1),
                           ("pow", 0.5), ("floor", 1), ("cmp", 1), ("ckey", 1 if self.lists else 0), ("ckey2", 1.5 if self.lods else 0)])
        else:
            k = self.pick([("arith", 5), ("div", 3), ("un", 1.5), ("abs", 1), ("round", 1), ("pow", 0.5), ("dmidx", 0.6 if self.cfg.get("dmidx") else 0),
                           ("call", 2 if self.spec.funcs else 0), ("vsum", 0.7 if (self.spec.funcs and self.leafconts) else 0),
                           ("int", 1.5), ("ckey", 1 if self.lists else 0), ("ckey2", 1.5 if self.lods else 0)])
        d = depth - 1
        if k == "arith":
            o = rng.choice(["+", "-", "*"])
            return self._bin(o, typ, typ, d)
        if k == "bitw":
            return self._bin(rng.choice(["&", "|", "^"]), "i", "i", d)
        if k == "shift":
            return ("bin", rng.choice(["<<", ">>"]), self.gen("i", d, True), ("lit", rng.randint(0, 3)))
        if k == "un":
            ops = ["-", "+"] + (["~"] if typ == "i" else [])
            return ("un", rng.choice(ops), self.gen(typ, d, True))
        if k == "abs":
            return ("bi", "abs", self.gen(typ, d, True), ())
        if k == "divlit":
            return ("bin", rng.choice(["//", "%"]), self.gen("i", d, True), ("lit", rng.choice([2, 3, -2, 5, 7])))
        if k == "pow":
            if rng.random() < 0.25:
                base = rng.choice([2, 3, -3, -2]) if typ == "i" else rng.choice([2.0, 0.5, -3.0, 1.5, -0.0, -0.5])
                # literal base, small non-negative integer exponent from an int leaf is too wild: use |x| % 4
                e = ("bin", "%", ("bi", "abs", self.gen("i", 0, True), ()), ("lit", 4)) if self.ileaves else None
                if e is not None:
                    return ("bin", "**", ("lit", base), e)
            return ("bin", "**", self.gen(typ, d, True), ("lit", rng.choice([2, 3] if typ == "i" else [2, 3, 2])))
        if k == "floor":
            return ("bi", rng.choice(["floor", "ceil", "trunc"]), self.gen("f", d, True), ())
        if k == "cmp":
            o = rng.choice(["<", "<=", ">", ">="] if self.no_eqne else ["<", "<=", ">", ">=", "==", "!="])
            a = self.gen("f", d, True)
            b = self.gen("f", d, False)
            if o in ("==", "!=") or rng.random() < 0.6 or not has_ref(b):
                return ("bin", o, a, b)
            return ("bin", o, b, a)
        if k == "ckey":
            cands = [p for p in self.lists if self.spec.leaf_type[self.spec.children[p][0]] == typ or typ == "f"]
            if cands and self.ileaves:
                lst = rng.choice(cands)
                return ("ref", lst + (("c", self.key_leaf(len(self.spec.children[lst]))),))
            return self.gen(typ, d, need_ref)
        if k == "ckey2":
            # a field of the record a computed index selects: the index is a dependency although it is not the last step
            cands = []
            for p in self.lods:
                for c in self.spec.children[self.spec.children[p][0]]:
                    if c in self.spec.leaf_type and (self.spec.leaf_type[c] == typ or typ == "f"):
                        cands.append((p, c[-1]))
            if cands and self.ileaves:
                lst, last = rng.choice(cands)
                return ("ref", lst + (("c", self.key_leaf(len(self.spec.children[lst]))), last))
            return self.gen(typ, d, need_ref)
        if k == "div":
            return self._bin(rng.choice(["/", "//", "%"]), "f", "f", d)
        if k == "round":
            return ("bi", "round", self.gen("f", d, True), (rng.randint(0, 3),))
        if k == "dmidx":
            # item access on the RESULT of an expression: divmod(x, n)[i]
            return ("idx", ("bi", "divmod", self.gen("f", d, True), (rng.choice([2, 3, 0.5]),)), rng.choice([0, 1]))
        if k == "call":
            f = rng.choice(["add3", "lin", "mix"])
            if f == "add3":
                args = (self.gen_arg("f", d, True), self.gen_arg("f", d, False))
                kw = (("c", self.gen_arg("f", 0, False)),) if rng.random() < 0.5 else ()
            elif f == "lin":
                args = (self.gen_arg("f", d, True),)
                kw = [x for x in [("k", self.gen_arg("f", -1, False)) if rng.random() < 0.6 else None,
                                  ("q", self.gen_arg("f", 0, False)) if rng.random() < 0.5 else None] if x]
                if rng.random() < 0.25:
                    kw.append(("x", args[0]))    # every argument by keyword: f.lin(x=.., k=..), no positional argument at all
                    args = ()
                if rng.random() < 0.5:
                    kw.reverse()                 # keyword arguments are written in any order
                kw = tuple(kw)
            else:
                args = (self.gen_arg("f", d, True), self.gen_arg("f", d, False))
                kw = (("w", ("lit", rng.choice([0.25, 0.5, 0.75]))),) if rng.random() < 0.5 else ()
            return ("call", f, args, kw)
        if k == "vsum":
            return ("call", "vsum", (("ref", rng.choice(self.leafconts)),), ())
        if k == "int":
            return self.gen("i", depth, need_ref)
        raise AssertionError(k)

    def _bin(self, o, ta, tb, d):
        rng = self.rng
        a = self.gen(ta, d, True)
        b = self.gen(tb, d, False)
        if b[0] == "lit" and o in ("/", "//", "%") and rng.random() < 0.8 and b[1] == 0:
            b = ("lit", 2 if tb == "i" else 2.0)
        if rng.random() < 0.35:
            a, b = b, a
        if a[0] == "nplit":
            # a numpy scalar standing to the LEFT of a reference owns the operator (numpy, not xdeps, evaluates it)
            a, b = b, a
        return ("bin", o, a, b)


def _has_node(ast, kinds):
    if not isinstance(ast, tuple) or not ast:
        return False
    if ast[0] in kinds and ast[0] in ("lit", "nplit") and isinstance(ast[1], float):
        return True
    return any(_has_node(x, kinds) for x in ast[1:] if isinstance(x, tuple)) or \
        any(_has_node(y, kinds) for x in ast[1:] if isinstance(x, tuple) for y in x if isinstance(y, tuple) and y and isinstance(y[0], tuple))


def _swap_one_literal(ast, rng, done=None):
    """copy of the AST in which the first float literal met (in a seeded walk) changes between ("lit", v) and ("nplit", v);
    only right-hand operands of binary operators are touched (a numpy scalar left of a reference owns the operator)"""
    done = done if done is not None else [False]
    if not isinstance(ast, tuple) or not ast:
        return ast
    if ast[0] == "bin" and not done[0]:
        a, b = ast[2], ast[3]
        if b[0] in ("lit", "nplit") and isinstance(b[1], float) and b[1] == b[1] and ast[1] in ("+", "-", "*"):
            done[0] = True
            return ("bin", ast[1], a, ("nplit" if b[0] == "lit" else "lit", b[1]))
        na = _swap_one_literal(a, rng, done)
        nb = b if done[0] else _swap_one_literal(b, rng, done)
        return ("bin", ast[1], na, nb)
    if ast[0] in ("un", "bi") and not done[0]:
        return (ast[0], ast[1], _swap_one_literal(ast[2], rng, done)) + tuple(ast[3:])
    return ast


def swap_colliding_literal(ast, done=None):
    """copy of the AST in which the first integer literal -1 / -2 met becomes the other one (hash(-1) == hash(-2) in
    CPython: two different expressions with one hash); the AST itself when it has none"""
    done = done if done is not None else [False]
    if done[0] or not isinstance(ast, tuple) or not ast:
        return ast
    t = ast[0]
    if t == "lit":
        if isinstance(ast[1], int) and not isinstance(ast[1], bool) and ast[1] in (-1, -2):
            done[0] = True
            return ("lit", -3 - ast[1])
        return ast
    if t == "bin":
        a = swap_colliding_literal(ast[2], done)
        b = swap_colliding_literal(ast[3], done)
        return ("bin", ast[1], a, b)
    if t in ("un", "bi"):
        return (t, ast[1], swap_colliding_literal(ast[2], done)) + tuple(ast[3:])
    if t == "idx":
        return ("idx", swap_colliding_literal(ast[1], done), ast[2])
    return ast


STYLES = ["item", "item", "attr", "mgr"]

DEFAULT_WEIGHTS = {"setv": 30, "sete": 30, "inpl": 12, "unreg": 6, "setc": 5,
                   "regf": 4, "unregf": 2, "regk": 3, "unregk": 1, "setfunc": 2, "copyfrom": 0}


def swarm_config(rng, tier="quick", **over):
    cfg = {}
    cfg["salt"] = mk_salt(rng)
    cfg["n_leaves"] = rng.randint(4, 16)
    cfg["max_depth"] = rng.choice([1, 2, 2, 3, 3])
    cfg["lists"] = rng.random() < 0.7
    cfg["funcs"] = rng.random() < 0.8
    cfg["g_restricted"] = rng.random() < 0.7
    cfg["n_ops"] = rng.randint(5, 40) if tier == "quick" else rng.randint(5, 120)
    cfg["expr_depth"] = rng.choice([1, 2, 2, 3, 4])
    w = dict(DEFAULT_WEIGHTS)
    for k in list(w):
        if k not in ("setv", "sete") and rng.random() < 0.25:
            w[k] = 0
    if rng.random() < 0.2:
        w["sete"] *= 3
    cfg["weights"] = w
    offs = []
    for k in ("bitw", "shift", "pow", "call", "vsum", "ckey", "cmp", "round", "floor", "div", "divlit"):
        if rng.random() < 0.2:
            offs.append(k)
    cfg["ops_off"] = offs
    cfg["dmidx"] = rng.random() < 0.3          # item access on the result of an expression: divmod(x, n)[i]
    cfg["lod_bias"] = rng.random() < 0.25      # make sure there is a list of records (rows[i]['field'])
    for k, v in over.pop("weights_over", {}).items():
        w[k] = v
    cfg.update(over)
    return cfg


class HistoryGen:
    """Proposes ops, keeps those the model accepts."""

    def __init__(self, rng, cfg, spec):
        self.rng, self.cfg, self.spec = rng, cfg, spec
        self.model = Model(spec)
        self.eg = ExprGen(rng, spec, self.model, cfg)
        self.tcount = 0

    def _wpick(self, weights):
        items = [(k, w) for k, w in weights.items() if w > 0]
        tot = sum(w for _, w in items)
        x = self.rng.random() * tot
        for k, w in items:
            x -= w
            if x <= 0:
                return k
        return items[-1][0]

    def propose(self):
        rng, spec, m = self.rng, self.spec, self.model
        kind = self._wpick(self.cfg["weights"])
        free = [l for l in spec.leaves if l not in m.kn_target and
                (l not in m.ft_target or (m.ft_target[l][1] == 0 and m.ftasks[m.ft_target[l][0]].get("reftid")))]
        if kind in ("setv", "sete", "inpl", "load") and not free:
            return None
        if kind == "setv":
            p = rng.choice(free + [l for l in m.kn_target if rng.random() < 0.5])      # a knob target may be given a new base value
            kl = [l for l in self.eg.keyleaf if l in free and not m.is_derived(l)]
            if kl and rng.random() < 0.2:
                p = rng.choice(kl)                # a leaf some expression uses as a subscript
            if p in self.eg.keyleaf and rng.random() < 0.8:
                return ("setv", p, rng.randrange(self.eg.keyleaf[p]), rng.choice(STYLES))
            return ("setv", p, gen_value(rng, spec.leaf_type[p]), rng.choice(STYLES))
        if kind == "sete":
            p = rng.choice(free)
            redef = [l for l in free if l in m.defs and _has_node(m.defs[l], ("lit", "nplit"))]
            if self.cfg.get("nplit") and redef and rng.random() < 0.12:
                # the same definition once more, one literal now of the other type (numpy scalar <-> python number): the
                # printed text is identical, the expression is not
                p = rng.choice(redef)
                return ("sete", p, _swap_one_literal(m.defs[p], rng), rng.choice(STYLES))
            ast = self.eg.gen(spec.leaf_type[p], self.cfg["expr_depth"], True)
            if rng.random() < 0.03 and spec.leaf_type[p] == "f" and "div" not in self.eg.ops_off:
                ast = ("bi", "divmod", ast, (rng.choice([2, 3, 0.5]),))
            return ("sete", p, ast, rng.choice(STYLES))
        if kind == "inpl":
            p = rng.choice(free)
            typ = spec.leaf_type[p]
            if typ == "i":
                o = rng.choice(["+", "-", "*", "^", "<<", ">>", "//", "%"])
            else:
                o = rng.choice(["+", "-", "*", "/", "//", "%", "**"])
            if o in ("<<", ">>"):
                operand = ("lit", rng.randint(0, 3))
            elif o == "**":
                operand = ("lit", 2)
            elif o in ("//", "%") and typ == "i":
                operand = ("lit", rng.choice([2, 3, 5, -2]))
            elif rng.random() < 0.5:
                operand = self.eg.lit(typ)
            else:
                operand = self.eg.gen(typ, min(1, self.cfg["expr_depth"]), True)
            return ("inpl", p, o, operand)
        if kind == "unreg":
            if not m.defs:
                return None
            return ("unreg", rng.choice(list(m.defs)))
        if kind == "setc":
            cands = self.eg.leafconts
            if not cands:
                return None
            p = rng.choice(cands)
            vals = tuple(gen_value(rng, spec.leaf_type[c]) for c in spec.children[p])
            return ("setc", p, vals, rng.choice(["item", "mgr"]))
        if kind == "regf":
            ftar = [l for l in free if spec.leaf_type[l] == "f" and l not in m.defs]
            if len(ftar) < 1 or len(spec.leaves) < 3:
                return None
            nt = rng.randint(1, min(2, len(ftar)))
            targets = tuple(rng.sample(ftar, nt))
            dpool = [l for l in spec.leaves if l not in targets]
            nd = rng.randint(1, min(3, len(dpool)))
            deps = tuple(rng.sample(dpool, nd))
            if rng.random() < 0.12:
                nd, deps = 0, ()               # a task without dependencies (an initialiser): it only runs when asked to
            elif rng.random() < 0.15:
                nt, targets = 0, ()            # a task without targets (an observer): it runs, and writes nothing
            coefs = tuple(tuple(rng.choice([0.5, 1.0, 2.0, -1.0, 0.25]) for _ in range(nd)) + (rng.choice([0.0, 1.0, -0.5]),)
                          for _ in range(nt))
            self.tcount += 1
            # a task id is any hashable: usually a string, sometimes the reference of the (first) target
            reftid = bool(targets) and rng.random() < 0.3
            via_ref = bool(self.cfg.get("ft_via_ref")) and bool(targets) and not reftid and rng.random() < 0.5
            if via_ref:
                # an action that assigns through references re-triggers whatever depends on its targets or on a container
                # enclosing them: it must not (be declared to) depend on such a container itself - endless recursion otherwise
                dd, tt = set(), set()
                for d in deps:
                    dd.update(m.pfx(d))
                for t in targets:
                    tt.update(m.pfx(t))
                if dd & tt:
                    via_ref = False
            return ("regf", "t%d%s" % (self.tcount, self.cfg["salt"]), deps, targets, coefs, reftid,
                    rng.random() < 0.3, via_ref)      # last flag: targets/dependencies handed over as lists (with repeated entries) instead of sets
        if kind == "unregf":
            if not m.ftasks:
                return None
            return ("unregf", rng.choice(list(m.ftasks)))
        if kind == "regk":
            d1 = [l for l in spec.leaves if len(l) == 2]
            # the source may sit inside a nested container: the knob is booked under that element alone (it declares
            # {source}, not the enclosing containers), and an assignment to the element must still find it
            spool = spec.leaves if rng.random() < 0.4 else d1
            srcs = [l for l in spool if l not in m.ft_target and l not in m.kn_target]
            tars = [l for l in d1 if l in free and spec.leaf_type[l] == "f" and l not in m.defs]
            if not srcs or not tars:
                return None
            s = rng.choice(srcs)
            tars = [t for t in tars if t != s]
            if not tars:
                return None
            nt = rng.randint(1, min(3, len(tars)))
            targets = tuple(rng.sample(tars, nt))
            # (a target listed twice - one location driven through two weights - is not generated: the unmodified
            #  library books a repeated entry twice on register but removes a reader's edge once, see DESIGN section 9)
            weights = tuple(rng.choice([0.5, 1.0, 2.0, -1.5, 0.25, 0.0]) for _ in range(nt))      # 0.0: a target the knob lists but does not move
            self.tcount += 1
            return ("regk", "k%d%s" % (self.tcount, self.cfg["salt"]), s, weights, targets)
        if kind == "unregk":
            if not m.knobs:
                return None
            return ("unregk", rng.choice(list(m.knobs)))
        if kind == "setfunc":
            if not spec.funcs:
                return None
            slot = rng.choice(["add3", "lin", "mix"])
            return ("setfunc", slot, rng.choice([slot, slot + "b"]))
        if kind in ("load", "copyfrom"):
            n = rng.randint(1, 3)
            pairs = []
            # deferred equality a._eq(b) prints as (a == b), which evaluates to a bool (KF-2, C11): kept out of
            # everything that is loaded from printed text unless the run belongs to C11's eq/ne population
            keep, self.eg.no_eqne = self.eg.no_eqne, not self.cfg.get("eqne_in_text", False)
            for p in rng.sample(free, min(n, len(free))):
                pairs.append((p, self.eg.gen(spec.leaf_type[p], min(2, self.cfg["expr_depth"]), True)))
            if pairs and rng.random() < 0.3:
                # the same target a second time in one load (the later entry replaces the earlier one, or is skipped)
                p = rng.choice(pairs)[0]
                pairs.insert(rng.randint(0, len(pairs)), (p, self.eg.gen(spec.leaf_type[p], 1, True)))
            self.eg.no_eqne = keep
            if kind == "copyfrom":
                # the same definitions made in ANOTHER manager over an equivalent container tree and copied label by label
                seen = set()
                pairs = [x for x in pairs if not (x[0] in seen or seen.add(x[0]))]
            return (kind, tuple(pairs), rng.random() < 0.7)
        if kind in ("refresh", "cleanup", "verify"):
            return (kind,)
        return None

    def history(self, n_ops=None, attempts_per_op=8):
        ops = []
        n_ops = n_ops or self.cfg["n_ops"]
        for _ in range(n_ops):
            for _a in range(attempts_per_op):
                op = self.propose()
                if op is None:
                    continue
                try:
                    model_step(self.model, op, g_restricted=self.cfg["g_restricted"])
                except ModelReject:
                    continue
                ops.append(op)
                break
        return ops
