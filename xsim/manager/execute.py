"""Lock-step execution of a history against the real manager and the model, with the
per-step oracles shared by the manager-sim properties."""
from ..common import same, canon, digest, plain
from ..containers import _Ctx, InjectedFault, SimStall
from .model import Model, ModelReject, model_step, path_str, prefixes
from .world import World, run_traced


class Violation(Exception):
    def __init__(self, cls, msg, **attrs):
        Exception.__init__(self, "%s: %s" % (cls, msg))
        self.cls = cls
        self.msg = msg
        self.attrs = attrs

    def to_json(self):
        return {"cls": self.cls, "msg": self.msg[:2000], "attrs": self.attrs}


class Step:
    __slots__ = ("op", "info", "trace", "exc", "pre_model", "pre_defined")


PROPAGATING = ("setv", "sete", "inpl", "setc", "regf")


class Exec:
    def __init__(self, xd, spec, g_restricted=True, salt=""):
        self.xd = xd
        self.spec = spec
        self.g_restricted = g_restricted
        self.model = Model(spec)
        self.world = World(spec, xd, salt)
        self.nstep = 0
        self.stats = {}

    def count(self, k, n=1):
        self.stats[k] = self.stats.get(k, 0) + n

    # ---- one op ----------------------------------------------------------
    def step(self, op, fault=None, want_pre=False):
        """Returns Step or None when the model rejects the op (skipped)."""
        pre = self.model.clone() if want_pre else None
        pre_defined = (len(op) > 1 and isinstance(op[1], tuple) and op[1] in self.model.defs)
        try:
            info = model_step(self.model, op, self.g_restricted)
        except ModelReject:
            self.count("skipped")
            return None
        trace, exc = run_traced(lambda: self.world.apply(op), fault)
        for name in [n for n in self.world.ftasks if n not in self.model.ftasks]:
            del self.world.ftasks[name]       # removed implicitly by an assignment to the reference it was registered under
        if isinstance(exc, SimStall):
            raise exc
        st = Step()
        st.op, st.info, st.trace, st.exc, st.pre_model = op, info, trace, exc, pre
        st.pre_defined = pre_defined
        self.nstep += 1
        self.count("op:" + op[0])
        self.count("events", len(trace))
        return st

    # ---- C01 oracle --------------------------------------------------------
    def check_contents(self, values, where="", info=None, prop="C01", loose=False):
        """loose: a numpy scalar and the python number it stands for count as the same content"""
        got = self.world.contents()
        bad = []
        for loc in self.spec.leaves:
            if not (same(plain(got[loc]), plain(values[loc])) if loose else same(got[loc], values[loc])):
                bad.append((path_str(loc), canon(got[loc]), canon(values[loc])))
        if bad:
            gc = bool(info is not None and info.g_cyclic_trig)
            cls = "%s.content%s" % (prop, ".gcyclic" if gc else "")
            raise Violation(cls, "%s: %d location(s) differ from the pull-model value, first: %s holds %s, expected %s"
                            % (where, len(bad), bad[0][0], bad[0][1], bad[0][2]),
                            g_cyclic_trig=gc, n_bad=len(bad), first=bad[0][0])

    # ---- C02 oracle ----------------------------------------------------------
    def executed_tasks(self, st, world=None, trace=None):
        """Attribute the trace of one update to task executions.

        Returns (initial_write_ok, [taskid...], stray) where stray lists writes that belong to no task."""
        m = self.model
        w = world or self.world
        op = st.op
        trace = st.trace if trace is None else trace
        assigned = op[1] if op[0] in ("setv", "sete", "inpl", "setc") else None
        i0 = 0
        init_ok = True
        if assigned is not None:
            init_ok = False
            for i, ev in enumerate(trace):
                if ev[0] == "w":
                    init_ok = (w.event_loc(ev) == assigned)
                    i0 = i + 1
                    break
                if ev[0] == "act":
                    break
        executed = []
        stray = []
        cur_f = None
        kpos = {}
        for ev in trace[i0:]:
            if ev[0] == "act":
                executed.append(("f", ev[2]))
                cur_f = ev[2]
            elif ev[0] == "w":
                loc = w.event_loc(ev)
                if loc in m.defs:
                    executed.append(("e", loc))
                elif loc in m.kn_target:
                    # a linear knob is its block of target writes, in the order of its target list
                    name, j = m.kn_target[loc]
                    tl = m.knobs[name]["targets"]
                    pos = kpos.get(name, 0)
                    if pos >= len(tl) or tl[pos] != loc:
                        pos = 0
                    if pos == 0 and tl[0] == loc:
                        executed.append(("k", name))
                    kpos[name] = pos + 1 if tl[pos] == loc else 0
                elif loc in m.ft_target:
                    if cur_f != m.ft_target[loc][0]:
                        stray.append(path_str(loc) if loc else repr(ev))
                else:
                    stray.append(path_str(loc) if loc else repr(ev))
        return init_ok, executed, stray

    def check_trace(self, st, prop="C02"):
        info = st.info
        if info.start is None:
            return None
        init_ok, executed, stray = self.executed_tasks(st)
        trig = info.trig
        lab = {t: i for i, t in enumerate(self.model.order)}

        def nm(t):
            return "%s:%s" % (t[0], path_str(t[1]) if t[0] == "e" else t[1])

        if not init_ok:
            raise Violation(prop + ".initial_write", "first container write of the update is not the assigned location %s"
                            % path_str(st.op[1]))
        if stray:
            raise Violation(prop + ".stray_write", "write to %s belongs to no triggered task" % stray[0])
        counts = {}
        for t in executed:
            counts[t] = counts.get(t, 0) + 1
        outside = [t for t in counts if t not in trig]
        if outside:
            raise Violation(prop + ".outside", "task %s ran but does not depend on the assigned location" % nm(outside[0]),
                            g_cyclic_trig=info.g_cyclic_trig)
        twice = [t for t, c in counts.items() if c > 1]
        if twice:
            raise Violation(prop + ".twice", "task %s ran %d times in one update" % (nm(twice[0]), counts[twice[0]]),
                            g_cyclic_trig=info.g_cyclic_trig)
        if not info.g_cyclic_trig:
            missing = [t for t in trig if t not in counts]
            if missing:
                raise Violation(prop + ".missing", "triggered task %s did not run" % nm(sorted(missing, key=repr)[0]))
            pos = {t: i for i, t in enumerate(executed)}
            for t in trig:
                for u in info.edges[t]:
                    if u in trig and u != t and pos[t] > pos[u]:
                        raise Violation(prop + ".order", "task %s ran before its producer %s" % (nm(u), nm(t)))
        else:
            self.count("c02_cyclic_updates")
        # interleaving measure
        tl = sorted(lab[t] for t in trig)
        edges = sorted((lab[t], lab[u]) for t in trig for u in info.edges[t] if u in trig and u != t)
        order = [lab[t] for t in executed]
        return digest([tl, edges]), digest([tl, edges, order]), len(trig)
