"""Seed derivation, value comparison, canonical encoding, ddmin (DESIGN 3.2, 3.6)."""
import hashlib
import json
import math
import random


def h64(*parts):
    s = "|".join(str(p) for p in parts).encode()
    return int.from_bytes(hashlib.blake2b(s, digest_size=8).digest(), "big")


def rng_for(seed, prop, run, purpose):
    return random.Random(h64(seed, prop, run, purpose))


def hashseed_for(seed, prop, batch):
    return h64(seed, prop, "hashseed", batch) % (2 ** 32)


def digest(obj):
    """Short stable digest of a JSON-able object (tuples == lists)."""
    s = json.dumps(obj, sort_keys=True, default=_default, separators=(",", ":"))
    return hashlib.blake2b(s.encode(), digest_size=8).hexdigest()


def _default(o):
    try:
        import numpy as np
        if isinstance(o, np.generic):
            return o.item()
        if isinstance(o, np.ndarray):
            return o.tolist()
    except Exception:
        pass
    if isinstance(o, (set, frozenset)):
        return sorted(o, key=repr)
    if isinstance(o, complex):
        return ["complex", o.real, o.imag]
    if isinstance(o, bytes):
        return o.hex()
    return repr(o)


def tuplify(o):
    """JSON gives lists; ops/paths are tuples all the way down (dicts keep keys)."""
    if isinstance(o, list):
        return tuple(tuplify(x) for x in o)
    if isinstance(o, tuple):
        return tuple(tuplify(x) for x in o)
    if isinstance(o, dict):
        return {k: tuplify(v) for k, v in o.items()}
    return o


def same(a, b):
    """Equal by type and value; NaN equals NaN; -0.0 equals 0.0; containers elementwise."""
    if type(a) is not type(b):
        return False
    if isinstance(a, float):
        return a == b or (math.isnan(a) and math.isnan(b))
    if isinstance(a, complex):
        return same(a.real, b.real) and same(a.imag, b.imag)
    if isinstance(a, (tuple, list)):
        return len(a) == len(b) and all(same(x, y) for x, y in zip(a, b))
    if isinstance(a, dict):
        return list(a.keys()) == list(b.keys()) and all(same(a[k], b[k]) for k in a)
    try:
        return bool(a == b)
    except Exception:
        return False


def plain(v):
    """numpy scalar -> the python number it stands for (container values compared regardless of that distinction)"""
    try:
        import numpy as np
        if isinstance(v, np.generic):
            return v.item()
    except Exception:
        pass
    if isinstance(v, tuple):
        return tuple(plain(x) for x in v)
    return v


def canon(v):
    """JSON-able canonical form of a value, keeping the type visible."""
    if isinstance(v, bool):
        return ["b", v]
    if isinstance(v, int):
        return ["i", str(v) if abs(v) > 2 ** 53 else v]
    if isinstance(v, float):
        if math.isnan(v):
            return ["f", "nan"]
        if math.isinf(v):
            return ["f", "inf" if v > 0 else "-inf"]
        return ["f", 0.0 if v == 0 else v]
    if isinstance(v, complex):
        return ["c", canon(v.real), canon(v.imag)]
    if isinstance(v, str):
        return ["s", v]
    if isinstance(v, (tuple, list)):
        return ["t" if isinstance(v, tuple) else "l"] + [canon(x) for x in v]
    if isinstance(v, dict):
        return ["d"] + [[canon(k), canon(x)] for k, x in v.items()]
    if v is None:
        return ["n"]
    return ["o", type(v).__name__, repr(v)]


def ddmin(items, fails, max_tests=400):
    """Classic delta debugging: smallest sublist (not nec. minimal) on which fails() holds.

    `fails(sub)` must be deterministic.  Bounded by max_tests evaluations.
    """
    tests = [0]

    def t(sub):
        tests[0] += 1
        return fails(sub)

    items = list(items)
    n = 2
    while len(items) >= 2 and tests[0] < max_tests:
        chunk = max(1, len(items) // n)
        subsets = [items[i:i + chunk] for i in range(0, len(items), chunk)]
        reduced = False
        # try complements first (removes one chunk at a time)
        for i in range(len(subsets)):
            comp = [x for j, s in enumerate(subsets) if j != i for x in s]
            if comp and len(comp) < len(items) and t(comp):
                items = comp
                n = max(n - 1, 2)
                reduced = True
                break
            if tests[0] >= max_tests:
                break
        if not reduced:
            if n >= len(items):
                break
            n = min(len(items), n * 2)
    # final pass: drop single elements
    i = 0
    while i < len(items) and tests[0] < max_tests and len(items) > 1:
        cand = items[:i] + items[i + 1:]
        if t(cand):
            items = cand
        else:
            i += 1
    return items
