"""setup / determinism self-test / sensitivity self-test (DESIGN 3.7)."""
import os
import sys

VERIF = os.path.dirname(os.path.dirname(os.path.abspath(__file__)))


def setup():
    """Offline setup: nothing to install.  Verifies that the interpreter the checks use has
    what they need and that a scratch build of /repo's working tree works."""
    missing = []
    for mod in ("numpy", "scipy", "Cython", "setuptools"):
        try:
            __import__(mod)
        except Exception as e:
            missing.append("%s (%s)" % (mod, e))
    if missing:
        print("setup: missing modules in %s: %s" % (sys.executable, ", ".join(missing)))
        return 2
    os.makedirs(os.path.join(VERIF, "evidence"), exist_ok=True)
    os.makedirs(os.path.join(VERIF, "replays"), exist_ok=True)
    from . import build
    try:
        s = build.make_scratch(need_compiled=True)
        build.remove_scratch(s)
    except Exception as e:
        print("setup: scratch build failed: %s" % e)
        return 2
    print("setup: ok (python %s, scratch builds pure+compiled work)" % sys.version.split()[0])
    return 0
