"""setup / determinism self-test / sensitivity self-test (DESIGN 3.7)."""
import os
import sys

VERIF = os.path.dirname(os.path.dirname(os.path.abspath(__file__)))


def setup():
    """Offline setup: nothing to install.  Verifies that the interpreter the checks use has
    what they need and that a scratch build of /repo's working tree works."""
    missing = []
    for mod in ("numpy", "scipy", "Cython", "setuptools"):
        try:
            __import__(mod)
        except Exception as e:
            missing.append("%s (%s)" % (mod, e))
    if missing:
        print("setup: missing modules in %s: %s" % (sys.executable, ", ".join(missing)))
        return 2
    os.makedirs(os.path.join(VERIF, "evidence"), exist_ok=True)
    os.makedirs(os.path.join(VERIF, "replays"), exist_ok=True)
    from . import build
    try:
        s = build.make_scratch(need_compiled=True)
        build.remove_scratch(s)
    except Exception as e:
        print("setup: scratch build failed: %s" % e)
        return 2
    print("setup: ok (python %s, scratch builds pure+compiled work)" % sys.version.split()[0])
    return 0


def determinism(seed=None, props=None, n_seeds=4, runs=48):
    """Same VERIF_SEED twice in fresh interpreters -> identical per-run digests (case, event/outcome digest, violation class);
    the generator is independent of PYTHONHASHSEED; results do not depend on address-space randomisation (with and
    without `setarch -R`).  Exit 0 if all hold, 2 otherwise (this is a harness self-test, never a VIOLATION)."""
    import json
    import time
    from concurrent.futures import ThreadPoolExecutor
    from . import build, runner
    from .registry import REG
    props = props or sorted(REG)
    seeds = [20260929 + 7919 * i for i in range(n_seeds)] if seed is None else [seed + 7919 * i for i in range(n_seeds)]
    build.install_signal_cleanup()
    scratch = build.make_scratch(need_compiled=True)
    jobs = []
    for p in props:
        builds = REG[p]["builds"]
        for s in seeds:
            b = builds[len(jobs) % len(builds)]
            for variant in ("A", "A2", "H", "N"):
                jobs.append((p, s, b, variant))

    def do(job):
        p, s, b, variant = job
        hs = 12345 if variant != "H" else 54321
        args = ["--prop", p, "--seed", str(s), "--tier", "quick", "--runs", "0:%d" % runs, "--dump-digests", "--no-shrink",
                "--known", "*", "--replay-dir", os.path.join(scratch["root"], "replays")]
        if variant == "N":
            os.environ["XSIM_NO_SETARCH_ONCE"] = "1"
        cmd, env = runner.worker_cmd(scratch, b, hs, args)
        if variant == "N" and cmd[0] == "setarch":
            cmd = cmd[3:]
        import subprocess
        r = subprocess.run(cmd, env=env, capture_output=True, text=True, timeout=1800, cwd=VERIF)
        lines = [l for l in r.stdout.splitlines() if l.startswith("{")]
        if not lines:
            return job, None, r.stderr[-1500:]
        res = json.loads(lines[-1])
        if res.get("type") != "batch":
            return job, None, str(res.get("msg"))[:1500]
        return job, res["run_digests"], None

    t0 = time.time()
    with ThreadPoolExecutor(max_workers=os.cpu_count() or 4) as tp:
        out = list(tp.map(do, jobs))
    build.remove_scratch(scratch)
    res = {}
    bad = []
    for job, dig, err in out:
        if dig is None:
            bad.append("%s: worker failed: %s" % (job, err))
            continue
        res[job] = dig
    n_cmp = 0
    for p in props:
        for s in seeds:
            b = [j for j in res if j[0] == p and j[1] == s]
            if not b:
                continue
            bb = b[0][2]
            A, A2, H, N = (res.get((p, s, bb, v)) for v in ("A", "A2", "H", "N"))
            if A is None:
                continue
            n_cmp += len(A)
            if A2 is not None and A != A2:
                k = next(i for i, (x, y) in enumerate(zip(A, A2)) if x != y)
                bad.append("%s seed %d build %s: two fresh interpreters with the same hash seed disagree at run %s: %s vs %s" % (p, s, bb, A[k][0], A[k][1:4], A2[k][1:4]))
            if H is not None and [x[1] for x in A] != [x[1] for x in H]:
                k = next(i for i, (x, y) in enumerate(zip(A, H)) if x[1] != y[1])
                bad.append("%s seed %d: the GENERATOR depends on PYTHONHASHSEED (run %s)" % (p, s, A[k][0]))
            if N is not None and A != N:
                k = next(i for i, (x, y) in enumerate(zip(A, N)) if x != y)
                bad.append("%s seed %d build %s: result depends on address-space randomisation (run %s: %s vs %s)" % (p, s, bb, A[k][0], A[k][1:4], N[k][1:4]))
    print("determinism self-test: %d properties x %d seeds x %d runs, 4 interpreters each (same seed twice, other hash seed, no setarch -R); "
          "%d run digests compared in %.0fs" % (len(props), len(seeds), runs, n_cmp, time.time() - t0))
    for b in bad[:20]:
        print("  FAIL: " + b)
    if not bad:
        print("  all identical")
    return 2 if bad else 0


def sensitivity(only=None):
    """Every repaired defect must come back when its fix: commit is reverted: for each `fixed:` line of
    known_findings.txt the commit is reverted in a scratch worktree of /repo (under /var/tmp) and the owning
    check must exit 1.  (The independently seeded changes are run by tools/run_seeded.py.)  Exit 0 if every
    revert that applies is caught, 2 otherwise."""
    import re
    import subprocess
    rows = []
    with open(os.path.join(VERIF, "known_findings.txt")) as fh:
        for line in fh:
            m = re.match(r"fixed:\s+property=(C\d+)\s+([0-9a-f]{7,})\s+(.*)", line.strip())
            if m and (only is None or m.group(1) in only):
                rows.append(m.groups())
    bad = 0
    for prop, commit, what in rows:
        r = subprocess.run([os.path.join(VERIF, "tools", "try_patch.sh"), "-R:" + commit, prop], capture_output=True, text=True)
        out = r.stdout + r.stderr
        if "revert failed" in out or "does not apply" in out:
            verdict = "SKIPPED (the revert does not apply cleanly on top of later commits)"
        elif r.returncode == 1:
            m = re.search(r"class=(\S+)", out)
            verdict = "caught (%s)" % (m.group(1) if m else "?")
        else:
            verdict = "NOT CAUGHT (exit %d)" % r.returncode
            bad += 1
        print("%s revert %s: %s   [%s]" % (prop, commit, verdict, what[:70]))
    print("sensitivity: %d reverted fixes, %d not caught" % (len(rows), bad))
    return 2 if bad else 0
