"""optimizer-sim: generated deterministic plants, the simulator's Action (fails / raises on
schedule), logging knob container, and construction of a real xdeps Optimize from a JSON spec."""
import math

from ..containers import InjectedFault


class OViolation(Exception):
    def __init__(self, cls, msg, **attrs):
        Exception.__init__(self, "%s: %s" % (cls, msg))
        self.cls, self.msg, self.attrs = cls, msg, attrs

    def to_json(self):
        return {"cls": self.cls, "msg": self.msg[:2000], "attrs": self.attrs}


# ---- plants ---------------------------------------------------------------------------
def plant_eval(p, k, twist=None):
    """p: plant spec (dict), k: list of knob values -> list of target values (pure python, fixed order).
    twist = (index, amount): output `index` is replaced by an unrelated finite function of k (for the
    'a disabled target has no influence' twin)."""
    kind = p["kind"]
    A, b = p["A"], p["b"]
    n = len(k)
    out = []
    for i, row in enumerate(A):
        if kind == "lin":
            v = b[i]
            for j in range(n):
                v += row[j] * k[j]
        elif kind == "quad":
            v = b[i]
            for j in range(n):
                d = k[j] - p["c"][j]
                v += row[j] * d * d
        elif kind == "mix":
            v = b[i]
            for j in range(n):
                v += row[j] * k[j]
            kk = k[i % n]
            v += p["q"][i] * kk * kk
        elif kind == "trig":
            v = b[i]
            for j in range(n):
                v += row[j] * math.sin(k[j] + p["c"][j])
        else:
            raise AssertionError(kind)
        out.append(v)
    if twist is not None:
        i, amt = twist
        s = 0.0
        for j in range(n):
            s += (j + 1) * k[j]
        out[i] = amt * math.cos(s) + 3.0 * amt
    return out


class KDict(dict):
    """knob container: a dict that logs every write (name, value)"""

    def __init__(self, *a, **kw):
        dict.__init__(self, *a, **kw)
        self.writes = []

    def __setitem__(self, k, v):
        self.writes.append((k, v))
        dict.__setitem__(self, k, v)


class OWorld:
    """One optimisation problem: spec -> real Optimize + everything the oracles need."""

    def __init__(self, xd, spec, twist=None):
        self.xd = xd
        self.spec = spec
        self.twist = twist
        O = xd.optimize.optimize
        if spec.get("same_name"):
            # every knob is called 'k' and lives in a container of its own
            self.names = ["k"] * spec["nk"]
            self.kcont = [KDict([("k", float(v))]) for v in spec["start"]]
        else:
            self.names = list(spec.get("names") or ["k%d" % i for i in range(spec["nk"])])
            shared = KDict((n, float(v)) for n, v in zip(self.names, spec["start"]))
            self.kcont = [shared] * spec["nk"]
        self.knobs = self.kcont[0]
        self.n_eval = 0              # evaluations of the user's action so far
        self.fault_raise = set()     # evaluation indices (absolute) at which run() raises
        self.fault_fail = set()      # ... returns "failed"
        self.fired = []              # (index, kind) of faults that fired
        self.last_fault_exc = None
        world = self

        class SimAction(O.Action):
            def run(self_):
                i = world.n_eval
                world.n_eval += 1
                if i in world.fault_raise:
                    world.fired.append((i, "raise"))
                    exc = InjectedFault("action raises at evaluation %d" % i)
                    world.last_fault_exc = exc
                    raise exc
                if i in world.fault_fail:
                    world.fired.append((i, "failed"))
                    return "failed"
                k = world.knob_values()
                y = plant_eval(world.spec["plant"], k, world.twist)
                return {j: y[j] for j in range(len(y))}

        self.action = SimAction()
        vary = []
        for i, n in enumerate(self.names):
            lim = spec["limits"][i]
            vary.append(O.Vary(n, self.kcont[i], limits=(None if lim is None else list(lim)), step=spec["steps"][i],
                               weight=spec["weights"][i], max_step=spec["max_step"][i], tag=spec["tags"][i],
                               active=bool(spec.get("vary_active", [True] * spec["nk"])[i])))
        targets = []
        for j in range(spec["nt"]):
            targets.append(O.Target(j, spec["values"][j], tol=spec["tols"][j], weight=spec["tweights"][j],
                                    action=self.action, tag=spec["ttags"][j],
                                    optimize_log=bool(spec.get("optlog", [False] * spec["nt"])[j])))
        o = spec["opts"]
        self.opt = xd.Optimize(vary=vary, targets=targets, restore_if_fail=o["restore_if_fail"],
                               assert_within_tol=o["assert_within_tol"], n_steps_max=o["n_steps_max"],
                               solver_options=dict(o.get("solver_options", {})), show_call_counter=False,
                               check_limits=o.get("check_limits", True), verbose=False)
        for j, a in enumerate(spec.get("target_active", [True] * spec["nt"])):
            if not a:
                self.opt.disable(target=j)
        self.n_eval_construct = self.n_eval

    # ---- observation -------------------------------------------------------------------
    def knob_values(self):
        return [dict.__getitem__(c, n) for c, n in zip(self.kcont, self.names)]

    def vary_flags(self):
        return [bool(v.active) for v in self.opt._err.vary]

    def target_flags(self):
        return [bool(t.active) for t in self.opt._err.targets]

    def plant(self, k=None):
        return plant_eval(self.spec["plant"], self.knob_values() if k is None else k, self.twist)

    def residuals(self, k=None):
        y = self.plant(k)
        return [y[j] - self.spec["values"][j] for j in range(len(y))]

    def penalty(self, k=None, flags=None):
        r = self.residuals(k)
        flags = self.target_flags() if flags is None else flags
        s = 0.0
        for j, rr in enumerate(r):
            if flags[j]:
                e = rr * self.spec["tweights"][j]
                s += e * e
        return math.sqrt(s)

    def penalty_noise(self, k=None, flags=None):
        """bound on the floating-point evaluation error of penalty(): a few ulps of the magnitudes that enter each
        residual (plant terms and target value), weighted like the penalty.  Differences below it are rounding, not
        a worse point."""
        k = self.knob_values() if k is None else k
        flags = self.target_flags() if flags is None else flags
        p = self.spec["plant"]
        s = 0.0
        for j, row in enumerate(p["A"]):
            if not flags[j]:
                continue
            m = abs(p["b"][j]) + abs(self.spec["values"][j])
            for i, a in enumerate(row):
                kk = abs(k[i]) + (abs(p["c"][i]) if "c" in p else 0.0)
                m += abs(a) * max(1.0, kk, kk * kk)
            if "q" in p:
                kk = abs(k[j % len(k)])
                m += abs(p["q"][j]) * kk * kk
            e = m * self.spec["tweights"][j]
            s += e * e
        return 64 * 2.220446049250313e-16 * math.sqrt(s)

    def within_tol(self, k=None, flags=None):
        r = self.residuals(k)
        flags = self.target_flags() if flags is None else flags
        return [(not flags[j]) or abs(r[j]) <= self.spec["tols"][j] for j in range(len(r))]

    def raw_log(self):
        return self.opt._log

    def arm(self, raises=(), fails=(), relative=True):
        base = self.n_eval if relative else 0
        self.fault_raise = set(base + i for i in raises)
        self.fault_fail = set(base + i for i in fails)

    def disarm(self):
        self.fault_raise = set()
        self.fault_fail = set()


def flags_from_string(s):
    return [c == "y" for c in s]


def call(fn):
    from ..containers import SimStall
    try:
        return fn(), None
    except BaseException as e:  # noqa
        if isinstance(e, (KeyboardInterrupt, SystemExit, SimStall)):
            raise
        return None, e
