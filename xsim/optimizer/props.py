"""Drivers of optimizer-sim: C09 (solve contract under faults at every evaluation), C10 (limits,
max_step, disabled knobs/targets monitored on every accepted iterate), C15 (truthful log)."""
import math

import json as _json
from ..common import rng_for, digest, tuplify, h64
from ..containers import InjectedFault, SimStall
from .gen import gen_problem, gen_call
from .world import OWorld, OViolation, call, flags_from_string


def _close(a, b, rel=1e-9, ab=1e-13):
    if a == b:
        return True
    if a != a and b != b:
        return True
    return abs(a - b) <= ab + rel * max(abs(a), abs(b))


def _unit(spec):
    return all(w == 1.0 for w in spec["weights"])


def _knobs_equal(spec, got, exp):
    if _unit(spec):
        return all(a == b for a, b in zip(got, exp))
    return all(_close(a, b, 1e-12, 0.0) for a, b in zip(got, exp))


# ---------------------------------------------------------------------------------------
# applying one call of the alphabet
# ---------------------------------------------------------------------------------------
def _resolve(world, what, sel):
    """indices of vary/targets addressed by an id / tag / name selector of enable/disable/step"""
    import re
    if what == "target":
        items, attr = world.opt._err.targets, "tag"
    elif what == "vary":
        items, attr = world.opt._err.vary, "tag"
    else:
        items, attr = world.opt._err.vary, "name"
    if sel is None:
        return []
    if isinstance(sel, (int, str)):
        sel = [sel]
    out = []
    for e in sel:
        if isinstance(e, int):
            out.append(e)
        else:
            out.extend(i for i, it in enumerate(items) if re.fullmatch(e, getattr(it, attr)))
    return sorted(set(out))


def call_flags(world, kw):
    """(vary flags, target flags) in force DURING a step call with per-call enable/disable arguments"""
    vf, tf = world.vary_flags(), world.target_flags()
    for i in _resolve(world, "target", kw.get("enable_target")):
        tf[i] = True
    for i in _resolve(world, "vary", kw.get("enable_vary")):
        vf[i] = True
    for i in _resolve(world, "target", kw.get("disable_target")):
        tf[i] = False
    for i in _resolve(world, "vary", kw.get("disable_vary")):
        vf[i] = False
    for i in _resolve(world, "vary_name", kw.get("disable_vary_name")):
        vf[i] = False
    for i in _resolve(world, "vary_name", kw.get("enable_vary_name")):
        vf[i] = True
    return vf, tf


def applicable(world, c):
    """model-side precondition: never leave the optimizer without an active knob/target (API misuse)"""
    k = c[0]
    if k == "step":
        vf, tf = call_flags(world, c[1])
        return any(vf) and any(tf)
    if k in ("solve", "run"):
        return any(world.vary_flags()) and any(world.target_flags())
    if k == "disable":
        vf, tf = world.vary_flags(), world.target_flags()
        idx = _resolve(world, c[1], c[2])
        if c[1] == "target":
            for i in idx:
                tf[i] = False
        else:
            for i in idx:
                vf[i] = False
        return any(vf) and any(tf)
    if k == "reload_tag":
        return c[1] in world.raw_log()["tag"]
    if k == "reload":
        return len(world.raw_log()["penalty"]) > 0
    return True


def apply_call(world, c):
    opt = world.opt
    k = c[0]
    if k == "step":
        return call(lambda: opt.step(**dict(c[1])))
    if k == "solve":
        return call(lambda: opt.solve(**dict(c[1])))
    if k == "run":
        return call(lambda: getattr(opt, "run_" + c[1])(n_steps=c[2]))
    if k == "reload":
        n = len(world.raw_log()["penalty"])
        return call(lambda: opt.reload(iteration=c[1] % n))
    if k == "reload_tag":
        return call(lambda: opt.reload(tag=c[1]))
    if k == "tag":
        return call(lambda: opt.tag(c[1]))
    if k == "enable":
        return call(lambda: opt.enable(**{c[1]: c[2]}))
    if k == "disable":
        return call(lambda: opt.disable(**{c[1]: c[2]}))
    if k == "clear_log":
        return call(lambda: opt.clear_log())
    if k == "set_knob":
        return call(lambda: world.kcont[c[1]].__setitem__(world.names[c[1]], float(c[2])))
    if k == "set_tol":
        # staged matching: the tolerance of a target is changed on the live optimizer (coarse first, then fine)
        j, v = c[1] % world.spec["nt"], float(c[2])
        world.spec = dict(world.spec)
        world.spec["tols"] = list(world.spec["tols"])
        world.spec["tols"][j] = v

        def set_tol():
            world.opt.targets[j].tol = v
        return call(set_tol)
    raise AssertionError(c)


# ---------------------------------------------------------------------------------------
# oracles
# ---------------------------------------------------------------------------------------
PROGRAMMING_ERRORS = (TypeError, AttributeError, NameError, KeyError, IndexError, UnboundLocalError)


def check_call_error(prop, where, c, exc):
    """step()/solve()/reload()... may fail for numerical reasons (RuntimeError, ValueError, LinAlgError, the action's own
    exception); an exception that is a programming error for well-formed arguments means the call is unusable"""
    if exc is not None and isinstance(exc, PROGRAMMING_ERRORS):
        raise OViolation(prop + ".call_unusable", "%s raised %s: %s for well-formed arguments" % (where, type(exc).__name__, exc),
                         exc=type(exc).__name__)


def check_log_aligned(world, prop, where, read=True):
    """read=False: the public log() is not called this time (a user does not read the log after every call either)"""
    log = world.raw_log()
    lens = {k: len(v) for k, v in log.items()}
    if len(set(lens.values())) != 1:
        raise OViolation(prop + ".log_ragged", "%s: the log lists have different lengths: %s" % (where, lens))
    if lens and list(lens.values())[0] == 0:
        return None          # an empty log (clear_log() whose own evaluation failed) has no row to be truthful about
    if not read:
        return None
    return public_log_rows(world, prop, where)


def public_log_rows(world, prop, where):
    """The rows as the user sees them: Optimize.log() (a Table).  Every cell must agree with what was recorded."""
    val, exc = call(lambda: world.opt.log())
    if exc is not None:
        raise OViolation(prop + ".log_unreadable", "%s: log() raised %s: %s" % (where, type(exc).__name__, exc))
    tab = val
    log = world.raw_log()
    n = len(log["penalty"])
    nk, nt = world.spec["nk"], world.spec["nt"]
    rows = []
    try:
        if len(tab) != n:
            raise OViolation(prop + ".log_view", "%s: log() has %d rows, %d were recorded" % (where, len(tab), n))
        for i in range(n):
            kn = [float(tab["vary_%d" % j][i]) for j in range(nk)]
            tg = [float(tab["target_%d" % j][i]) for j in range(nt)]
            kn2 = [float(x) for x in tab["vary"][i]]
            tg2 = [float(x) for x in tab["targets"][i]]
            row = (kn, flags_from_string(str(tab["vary_active"][i])), flags_from_string(str(tab["target_active"][i])),
                   float(tab["penalty"][i]), tg)
            raw = ([float(x) for x in log["knobs"][i]], flags_from_string(log["vary_active"][i]), flags_from_string(log["target_active"][i]),
                   float(log["penalty"][i]), [float(x) for x in log["targets"][i]])
            if not _rows_same(row, raw) or not _rows_same((kn2, row[1], row[2], row[3], tg2), raw) or str(tab["tag"][i]) != str(log["tag"][i]):
                raise OViolation(prop + ".log_view", "%s: row %d of log() shows %s, recorded was %s" % (where, i, row, raw))
            rows.append(row)
    except OViolation:
        raise
    except Exception as e:     # a malformed table
        raise OViolation(prop + ".log_unreadable", "%s: reading log() raised %s: %s" % (where, type(e).__name__, e))
    return rows


def _rows_same(a, b):
    def eq(x, y):
        return x == y or (x != x and y != y)
    return all(eq(x, y) for x, y in zip(a[0], b[0])) and a[1] == b[1] and a[2] == b[2] and eq(a[3], b[3]) and \
        all(eq(x, y) for x, y in zip(a[4], b[4])) and len(a[0]) == len(b[0]) and len(a[4]) == len(b[4])


def check_limits(world, prop, where, rows_from=0, containers=True):
    """containers=False after a call that raised: the knobs may then be left at a finite-difference probe point
    (x + step, evaluated without limit check), which is not an iterate the optimizer accepted"""
    spec = world.spec
    log = world.raw_log()
    rel = 0.0 if _unit(spec) else 1e-12
    rows = list(enumerate(log["knobs"]))[rows_from:] + ([("container", world.knob_values())] if containers else [])
    for i, kn in rows:
        for j, lim in enumerate(spec["limits"]):
            if lim is None:
                continue
            lo, hi = lim
            v = kn[j]
            if v < lo - rel * abs(lo) or v > hi + rel * abs(hi) or v != v:
                raise OViolation(prop + ".limit", "%s: knob %d = %r in %s is outside its limits [%r, %r]"
                                 % (where, j, v, "the containers" if i == "container" else "log row %d" % i, lo, hi), knob=j)


def check_max_step(world, prop, where, n0):
    spec = world.spec
    if not _unit(spec):
        return 0
    log = world.raw_log()
    kn, al = log["knobs"], log["alpha"]
    n = 0
    for r in range(max(n0, 1), len(kn)):
        if al[r] is None or al[r] < 0:
            continue
        n += 1
        for j, ms in enumerate(spec["max_step"]):
            if ms is None:
                continue
            d = abs(kn[r][j] - kn[r - 1][j])
            if d > ms * (1 + 1e-9) + 1e-15:
                raise OViolation(prop + ".max_step", "%s: knob %d moved by %r between log rows %d and %d, max_step is %r"
                                 % (where, j, d, r - 1, r, ms), knob=j)
    return n


def check_reproducible(world, prop, where, exclude_rows=()):
    """reload(i) restores row i (knobs, flags) and an independent evaluation there reproduces targets and penalty.
    Destructive (every reload appends a row): call at the end of a history."""
    spec = world.spec
    if len(world.raw_log()["penalty"]) == 0:
        return 0
    rows = public_log_rows(world, prop, where)          # the rows the user is shown
    checked = 0
    for i, (kn, vf, tf, pen, tg) in enumerate(rows):
        if i in exclude_rows:
            continue
        val, exc = call(lambda: world.opt.reload(iteration=i))
        w2 = "%s: reload(%d)" % (where, i)
        if exc is not None:
            raise OViolation(prop + ".reload_raises", "%s raised %s: %s" % (w2, type(exc).__name__, exc))
        got = world.knob_values()
        if not _knobs_equal(spec, got, kn):
            raise OViolation(prop + ".reload_knobs", "%s left the knobs at %s, the row records %s" % (w2, got, kn))
        if world.vary_flags() != vf or world.target_flags() != tf:
            raise OViolation(prop + ".reload_flags", "%s left active flags %s/%s, the row records %s/%s"
                             % (w2, world.vary_flags(), world.target_flags(), vf, tf))
        y = world.plant(kn)
        for j, (a, b) in enumerate(zip(tg, y)):
            if not _close(a, b):
                raise OViolation(prop + ".row_targets", "%s: the row records target %d = %r, an independent evaluation at its knobs gives %r"
                                 % (w2, j, a, b))
        p2 = world.penalty(kn, tf)
        if not _close(pen, p2, 1e-9, 1e-12):
            raise OViolation(prop + ".row_penalty", "%s: the row records penalty %r (active targets %s), an independent evaluation gives %r"
                             % (w2, pen, tf, p2))
        checked += 1
    return checked


def check_row_flags(world, prop, where, n0, during_v, during_t):
    """every row logged by a step()/solve() call records the active flags that were in force during that call"""
    log = world.raw_log()
    for r in range(n0, len(log["penalty"])):
        vf, tf = flags_from_string(log["vary_active"][r]), flags_from_string(log["target_active"][r])
        if vf != list(during_v) or tf != list(during_t):
            raise OViolation(prop + ".row_flags", "%s: log row %d records active knobs/targets %s/%s, but %s/%s were switched on during this call"
                             % (where, r, vf, tf, list(during_v), list(during_t)))


def check_take_best(world, prop, where, n0, kw):
    """after a step(take_best=True) that returned normally: within all tolerances, or on a minimum-penalty row of the call"""
    log = world.raw_log()
    pens = [float(p) for p in log["penalty"][n0:]]
    if not pens:
        return
    vf, tf = call_flags(world, kw) if kw else (None, world.target_flags())
    cur = world.knob_values()
    if all(world.within_tol(cur, tf)):
        return "within_tol"
    # rows of the call proper (the reload row appended by take_best repeats one of them)
    m = min(pens)
    best = [n0 + i for i, p in enumerate(pens) if p <= m * (1 + 1e-12) + 1e-300]
    if not any(_knobs_equal(world.spec, cur, log["knobs"][r]) for r in best):
        raise OViolation(prop + ".take_best", "%s: the call ended at knobs %s (penalty of the rows of this call: %s), not on a row of minimum penalty %r and not within tolerance"
                         % (where, cur, pens, m))
    if pens[-1] > pens[0] * (1 + 1e-12):
        raise OViolation(prop + ".ends_worse", "%s: the call ended at penalty %r, it started at %r" % (where, pens[-1], pens[0]))
    return "best"


# ---------------------------------------------------------------------------------------
# C09
# ---------------------------------------------------------------------------------------
class C09:
    prop = "C09"
    MAX_K = 40

    @staticmethod
    def generate(ctx, run):
        r = rng_for(ctx.seed, "C09", run, "problem")
        spec = gen_problem(r, ctx.tier)
        if r.random() < 0.15:
            spec["opts"]["restore_if_fail"] = False
        pre = []
        r2 = rng_for(ctx.seed, "C09", run, "pre")
        if r2.random() < 0.3:
            pre = [("step", {"n_steps": r2.choice([1, 2]), "take_best": r2.random() < 0.5})]
        # knobs / targets switched on or off between construction (iteration 0 of the log) and the solve
        for j, a in enumerate(spec["vary_active"]):
            if not a and r2.random() < 0.6:
                pre.insert(r2.randint(0, len(pre)), ("enable", "vary", j))
        if r2.random() < 0.2:
            pre.insert(r2.randint(0, len(pre)), (r2.choice(["disable", "enable"]), r2.choice(["vary", "target"]), 0))
        if r2.random() < 0.3:
            # an earlier solve with the tolerances as built, then one of them is tightened (or relaxed) for the solve under test
            j = r2.randrange(spec["nt"])
            pre.append(("solve", {}))
            pre.append(("set_tol", j, spec["tols"][j] * r2.choice([1e-3, 1e-2, 1e-1, 10.0])))
        if r2.random() < 0.3:
            # an earlier solve, then the user changes a knob by hand (preferably one that is switched off), then the solve under test
            inact = [j for j, a in enumerate(spec["vary_active"]) if not a and ("enable", "vary", j) not in pre]
            j = r2.choice(inact) if inact and r2.random() < 0.8 else r2.randrange(spec["nk"])
            lim = spec["limits"][j]
            v = round(r2.uniform(-1, 1), 3) if lim is None else round(r2.uniform(lim[0], lim[1]), 3)
            if ("solve", {}) not in pre:
                pre.append(("solve", {}))
            pre.append(("set_knob", j, v))
        if r2.random() < 0.25:
            # coarse tolerances on some targets: "within tolerance" is then reached at points that are far from exact
            for j in range(spec["nt"]):
                if r2.random() < 0.6:
                    spec["tols"][j] = r2.choice([0.5, 0.2, 0.05])
        if r2.random() < 0.12:
            # a knob that starts a hair inside one of its limits (the step component pushing it out is dropped, what is left of
            # the step need not be a descent direction), coarse and unequal tolerances, few steps
            lj = [j for j in range(spec["nk"]) if spec["limits"][j] is not None]
            if lj:
                j = r2.choice(lj)
                lo, hi = spec["limits"][j]
                spec["start"][j] = round(lo + 0.01, 6) if r2.random() < 0.5 else round(hi - 0.01, 6)
                spec["tols"] = [r2.choice([2.0, 1.0, 0.5, 0.3]) for _ in range(spec["nt"])]
                spec["opts"]["n_steps_max"] = r2.choice([1, 2, 3])
        multi = []
        for _ in range(r2.randint(0, 3)):
            multi.append(([r2.randint(0, 25) for _ in range(r2.randint(1, 2))], [r2.randint(0, 25) for _ in range(r2.randint(0, 2))]))
        solve_kw = {}
        if r2.random() < 0.25:
            solve_kw["broyden"] = True
        if r2.random() < 0.2:
            solve_kw["n_steps"] = r2.choice([1, 2, 4])
        return {"spec": spec, "pre": pre, "multi": multi, "solve_kw": solve_kw}

    @staticmethod
    def case_from_json(j):
        return {"spec": j["spec"], "pre": [tuplify(x) for x in j["pre"]], "multi": j["multi"], "solve_kw": j["solve_kw"]}

    @staticmethod
    def _one(ctx, case, raises=(), fails=()):
        """fresh world; pre-calls fault-free; solve() with the fault plan; returns (world, exc, n_eval_in_solve)"""
        w, exc0 = call(lambda: OWorld(ctx.xd, case["spec"]))
        if exc0 is not None:
            return None, "skip", 0        # the optimizer cannot even be built at this start point (e.g. rounding above a limit)
        for c in case["pre"]:
            if applicable(w, c):
                apply_call(w, c)
        if not applicable(w, ("solve", {})):
            return w, "skip", 0
        w.arm(raises, fails)
        e0 = w.n_eval
        val, exc = call(lambda: w.opt.solve(**case["solve_kw"]))
        n = w.n_eval - e0
        w.disarm()
        return w, exc, n

    @staticmethod
    def _check(ctx, case, w, exc, where, fault=None):
        prop = "C09"
        spec = case["spec"]
        if exc is None:
            ok = w.within_tol()
            if not all(ok):
                r = w.residuals()
                j = ok.index(False)
                raise OViolation(prop + ".returned_unmatched", "%s: solve() returned normally but target %d is %r away from its value (tol %r) "
                                 "at the knobs left in the container %s" % (where, j, r[j], w.spec["tols"][j], w.knob_values()))
            return "returned"
        if fault is not None and fault[0] == "raise" and w.fired:
            if exc is not w.last_fault_exc:
                raise OViolation(prop + ".exception_lost", "%s: the caller got %s: %s instead of the exception raised by the action"
                                 % (where, type(exc).__name__, exc))
        if spec["opts"]["restore_if_fail"]:
            log = w.raw_log()
            row0 = list(log["knobs"][0])
            got = w.knob_values()
            if not _knobs_equal(spec, got, row0):
                raise OViolation(prop + ".not_restored", "%s: solve() raised %s but the knobs are %s, iteration 0 of the log records %s"
                                 % (where, type(exc).__name__, got, row0))
            vf, tf = flags_from_string(log["vary_active"][0]), flags_from_string(log["target_active"][0])
            if w.vary_flags() != vf or w.target_flags() != tf:
                raise OViolation(prop + ".flags_not_restored", "%s: solve() raised %s; active flags are %s/%s, iteration 0 records %s/%s"
                                 % (where, type(exc).__name__, w.vary_flags(), w.target_flags(), vf, tf))
        check_log_aligned(w, prop, where)
        return "raised"

    @staticmethod
    def execute(ctx, case):
        prop = "C09"
        stats = {}
        nf = 0

        def count(k, n=1):
            stats[k] = stats.get(k, 0) + n

        try:
            w, exc, N = C09._one(ctx, case)
            if exc == "skip":
                return {"violation": None, "nontrivial": False, "stats": stats, "extra": {}, "trace_digest": None}
            if isinstance(exc, AssertionError) and "At least one vary" in str(exc):
                return {"violation": None, "nontrivial": False, "stats": stats, "extra": {}, "trace_digest": None}
            out = C09._check(ctx, case, w, exc, "fault-free solve()")
            count("faultfree_" + out)
            if exc is not None:
                count("faultfree_exc:" + type(exc).__name__)
            ks = list(range(N))
            if len(ks) > C09.MAX_K:
                st = len(ks) / float(C09.MAX_K)
                ks = sorted(set(int(i * st) for i in range(C09.MAX_K)))
            count("events", N)
            for k in ks:
                for kind in ("raise", "failed"):
                    w2, exc2, n2 = C09._one(ctx, case, raises=[k] if kind == "raise" else (), fails=[k] if kind == "failed" else ())
                    nf += 1
                    count("events", n2)
                    if w2.fired:
                        count("fault:action_%s" % ("raises" if kind == "raise" else "returns_failed"))
                    o2 = C09._check(ctx, case, w2, exc2, "solve() with the action %s at evaluation %d of %d" % (
                        "raising" if kind == "raise" else "returning 'failed'", k, N), (kind, k))
                    count("faulted_" + o2)
            # runs of consecutive failing evaluations (an action that keeps failing for a while): from the first evaluation on,
            # and from two other positions
            for k in sorted(set([0] + ks[1:len(ks):max(1, len(ks) // 2)][:2])):
                for ln in (2, 3):
                    w4, exc4, n4 = C09._one(ctx, case, fails=list(range(k, k + ln)))
                    nf += 1
                    count("events", n4)
                    if w4.fired:
                        count("fault:action_returns_failed_%d_times_in_a_row" % ln)
                    C09._check(ctx, case, w4, exc4, "solve() with the action returning 'failed' at evaluations %d..%d of %d" % (k, k + ln - 1, N), None)
            for rs, fs in case["multi"]:
                w3, exc3, n3 = C09._one(ctx, case, raises=rs, fails=fs)
                nf += 1
                count("fault:multi_plan")
                C09._check(ctx, case, w3, exc3, "solve() with faults raise@%s failed@%s" % (rs, fs), None)
        except OViolation as v:
            return {"violation": dict(v.to_json(), step=None), "nontrivial": nf > 0, "stats": stats,
                    "extra": {"counters": {"faulted_solves": nf}}, "trace_digest": None}
        return {"violation": None, "nontrivial": nf > 0, "stats": stats, "extra": {"counters": {"faulted_solves": nf}},
                "trace_digest": digest(sorted(stats.items()))}


# ---------------------------------------------------------------------------------------
# histories for C10 / C15
# ---------------------------------------------------------------------------------------
def gen_history(ctx, run, prop, kinds, fault_p, **over):
    r = rng_for(ctx.seed, prop, run, "problem")
    spec = gen_problem(r, ctx.tier, **over)
    rc = rng_for(ctx.seed, prop, run, "calls")
    n = rc.randint(2, 10) if ctx.tier == "quick" else rc.randint(2, 25)
    calls = [gen_call(rc, spec, kinds) for _ in range(n)]
    faults = []
    if rc.random() < fault_p:
        for _ in range(rc.randint(1, 3)):
            faults.append((rc.randrange(n), rc.choice(["failed", "failed", "raise"]), rc.randint(0, 12)))
    return {"spec": spec, "calls": calls, "faults": faults}


def hist_from_json(j):
    return {"spec": j["spec"], "calls": [(c[0], dict(c[1])) if (len(c) > 1 and isinstance(c[1], dict)) else tuplify(c) for c in j["calls"]],
            "faults": [tuple(f) for f in j.get("faults", [])], **{k: v for k, v in j.items() if k not in ("spec", "calls", "faults")}}


class C10:
    prop = "C10"
    shrink_parts = ("calls",)
    KINDS = ["step", "step", "step", "solve", "enable", "disable", "disable", "reload", "tag", "set_knob", "run"]
    case_from_json = staticmethod(hist_from_json)

    @staticmethod
    def generate(ctx, run):
        case = gen_history(ctx, run, "C10", C10.KINDS, 0.3, start_inside=True)
        case["faults"] = [f for f in case["faults"] if f[1] == "failed"]
        spec = case["spec"]
        r = rng_for(ctx.seed, "C10", run, "bias")
        # bias: solutions outside the limits or far away, per-knob max_step
        if r.random() < 0.5:
            spec["max_step"] = [r.choice([0.05, 0.2, 0.5, 1.0, None]) for _ in range(spec["nk"])]
        # a target disabled for the whole history (twin with a different plant output there)
        twin_t = None
        if spec["nt"] >= 2 and r.random() < 0.5:
            twin_t = r.randrange(spec["nt"])
            spec["target_active"] = [True] * spec["nt"]
            # the target is active when the optimizer is built (iteration 0 is logged with it) and is switched off before
            # the first call of the history (in execute); from then on its output must not matter
        case["twin_target"] = twin_t
        case["twin_tol0"] = r.random() < 0.5
        if twin_t is not None and r.random() < 0.4 and spec["values"][twin_t] > 0:
            # the target that is going to be switched off is matched on a logarithmic scale (Target(optimize_log=True)); it is
            # active while the optimizer is built, so its value there must be positive
            from .world import plant_eval
            if plant_eval(spec["plant"], spec["start"])[twin_t] > 0:
                spec["optlog"] = [j == twin_t for j in range(spec["nt"])]
        if r.random() < 0.1 and "probe_on_solution" not in spec["family"] and "tiny_weights" not in spec["family"]:
            # every knob limited, every limit written as a plain integer (limits=(1, 5)), weights not 1: the limits reach the
            # solver divided by the weights, which are not integers any more.  (Drawn last and only here, so that the problems of
            # the other optimizer checks and the other C10 cases stay what they were.)
            nk = spec["nk"]
            spec["limits"], spec["start"] = [], []
            for j in range(nk):
                lo = r.choice([-3, -2, -1, 0, 1, 2])
                hi = lo + r.choice([1, 2, 4])
                spec["limits"].append([lo, hi])
                spec["start"].append(round(r.uniform(lo, hi), 3))
            spec["family"] = spec["family"] + "+int_limits"
            spec["weights"] = [r.choice([0.5, 2.5, 10.0, 0.1, 4.0, 3.0]) for _ in range(nk)]
            if r.random() < 0.5:
                # limits not enforced on evaluation; the start is inside, and the optimizer clips its steps to the limits
                spec["opts"]["check_limits"] = False
            # calls drawn for the old limits may set a knob by hand: keep those values inside the new limits
            case["calls"] = [("set_knob", c[1], round(min(max(c[2], spec["limits"][c[1]][0]), spec["limits"][c[1]][1]), 3)) if c[0] == "set_knob" else c
                             for c in case["calls"]]
        return case

    @staticmethod
    def execute(ctx, case):
        prop = "C10"
        spec = case["spec"]
        stats = {}

        def count(k, n=1):
            stats[k] = stats.get(k, 0) + n

        tt = case.get("twin_target")
        i = -1
        steps_checked = 0
        try:
            val, exc = call(lambda: OWorld(ctx.xd, spec))
            if exc is not None:
                return {"violation": None, "nontrivial": False, "stats": {"construction_failed": 1}, "extra": {}, "trace_digest": None}
            w = val
            twin = None
            if tt is not None:
                # the twin differs in what the disabled target returns - and, in half of the cases, in its tolerance (0: never met)
                spec2 = spec
                if case.get("twin_tol0"):
                    spec2 = dict(spec)
                    spec2["tols"] = list(spec["tols"])
                    spec2["tols"][tt] = 0.0
                twin, exc = call(lambda: OWorld(ctx.xd, spec2, twist=(tt, 2.5)))
                if exc is not None:
                    twin = None
            dirty = False
            n_dis = None        # log length when the twin target was switched off; rows before it legitimately differ
            if twin is not None:
                w.opt.disable(target=tt)
                twin.opt.disable(target=tt)
                n_dis = len(w.raw_log()["penalty"])
                if not any(w.target_flags()):
                    twin = None
            check_limits(w, prop, "after construction")
            # ---- reference for the quasi-Newton (Broyden) steps: on a LINEAR plant the secant update reproduces the
            # finite-difference Jacobian exactly (for the rows of targets that have been active all along, while every knob
            # has been active all along), so the same history without `broyden` must give the same knobs.  A row kept from
            # the time a target was still active has no business in the step once the target is disabled.
            bref = None
            valid_t = None
            if spec["plant"]["kind"] == "lin" and not case["faults"] and any(c[0] in ("step", "solve") and c[1].get("broyden") for c in case["calls"]):
                bref, exc = call(lambda: OWorld(ctx.xd, spec))
                if exc is not None:
                    bref = None
                elif tt is not None and twin is not None:
                    bref.opt.disable(target=tt)
            for i, c in enumerate(case["calls"]):
                if tt is not None and c[0] in ("enable",) and c[1] == "target" and tt in _resolve(w, "target", c[2]):
                    continue
                if tt is not None and c[0] == "reload" and n_dis is not None and (c[1] % max(1, len(w.raw_log()["penalty"]))) < n_dis:
                    continue        # reloading a row logged before the switch-off would switch the target on again
                if tt is not None and c[0] == "step" and (tt in _resolve(w, "target", c[1].get("enable_target")) or
                                                          tt in _resolve(w, "target", c[1].get("disable_target"))):
                    continue        # a per-call disable re-enables the target afterwards: it would no longer be 'disabled'
                if tt is not None and c[0] == "disable" and c[1] == "target" and tt in _resolve(w, "target", c[2]):
                    continue
                if not applicable(w, c):
                    count("skipped")
                    continue
                where = "call %d %s%s" % (i, c[0], c[1] if len(c) > 1 else "")
                n0 = len(w.raw_log()["penalty"])
                kb = w.knob_values()
                vfb, tfb = w.vary_flags(), w.target_flags()
                during_v, during_t = call_flags(w, c[1]) if c[0] == "step" else (vfb, tfb)
                prev_jac_k = None
                if bref is not None:
                    # (validity of the Broyden reference only) the point the solver's current Jacobian belongs to
                    pj = getattr(w.opt.solver, "_last_jac_x", None)
                    prev_jac_k = None if pj is None else [float(a) * (wt if wt is not None else 1.0) for a, wt in zip(pj, spec["weights"])]
                fl = [f for f in case["faults"] if f[0] == i]
                if fl:
                    w.arm(fails=[f[2] for f in fl])
                    if twin is not None:
                        twin.arm(fails=[f[2] for f in fl])
                val, exc = apply_call(w, c)
                w.disarm()
                if w.fired:
                    count("fault:action_returns_failed", len(w.fired))
                    w.fired = []
                count("call:" + c[0])
                if exc is not None:
                    count("call_raised:" + type(exc).__name__)
                check_call_error(prop, where, c, exc)
                # ---- limits on every new row and in the containers
                if c[0] in ("step", "solve", "run") and exc is not None and not (c[0] == "solve" and spec["opts"]["restore_if_fail"]):
                    dirty = True         # the knobs may be left at a finite-difference probe point until they are rewritten
                elif c[0] in ("step", "solve", "reload", "run") and exc is None:
                    dirty = False
                if c[0] == "run":
                    # the scipy-based runs work on the same merit function: a knob that is disabled keeps its value in every
                    # row they log and in the containers (max_step is a notion of the Jacobian steps only)
                    bref = None
                    log = w.raw_log()
                    seen = [float(x) for x in w.knob_values()] + [float(x) for r in log["knobs"][n0:] for x in r]
                    if any(x != x or x in (float("inf"), float("-inf")) for x in seen):
                        # scipy's trust-region / L-BFGS-B code can return NaN for a knob without limits (its bounds are then
                        # +-1e200 and a knob the targets do not depend on has a zero Jacobian column): nothing C10 states is
                        # about such a point, and nothing that follows can be judged from it
                        count("run_left_nonfinite_knobs")
                        break
                    for j, act in enumerate(vfb):
                        if act:
                            continue
                        for r in range(n0, len(log["knobs"])):
                            if log["knobs"][r][j] != kb[j]:
                                raise OViolation(prop + ".disabled_knob_moved", "%s: knob %d is disabled but log row %d has %r (before the call %r)"
                                                 % (where, j, r, log["knobs"][r][j], kb[j]), knob=j)
                        if exc is None and w.knob_values()[j] != kb[j]:
                            raise OViolation(prop + ".disabled_knob_moved", "%s: knob %d is disabled but changed from %r to %r"
                                             % (where, j, kb[j], w.knob_values()[j]), knob=j)
                        count("disabled_knob_checks")
                if c[0] != "set_knob":
                    check_limits(w, prop, where, n0, containers=(exc is None and not dirty))
                if c[0] in ("step", "solve"):
                    steps_checked += check_max_step(w, prop, where, n0 + 1)
                    if exc is None:
                        check_row_flags(w, prop, where, n0, during_v, during_t)
                    # ---- knobs disabled for this call keep their value (in every row of the call and at the end)
                    log = w.raw_log()
                    for j, act in enumerate(during_v):
                        if act or (c[0] == "solve" and exc is not None):
                            # a failing solve() restores iteration 0 of the log, knobs that are inactive now included (C09)
                            continue
                        for r in range(n0, len(log["knobs"])):
                            if log["knobs"][r][j] != kb[j]:
                                raise OViolation(prop + ".disabled_knob_moved", "%s: knob %d was disabled for this call but log row %d has %r (before the call %r)"
                                                 % (where, j, r, log["knobs"][r][j], kb[j]), knob=j)
                        if w.knob_values()[j] != kb[j]:
                            raise OViolation(prop + ".disabled_knob_moved", "%s: knob %d was disabled for this call but changed from %r to %r"
                                             % (where, j, kb[j], w.knob_values()[j]), knob=j)
                        count("disabled_knob_checks")
                    if c[0] == "step" and exc is None:
                        kw = c[1]
                        va, ta = w.vary_flags(), w.target_flags()
                        for j in set(_resolve(w, "vary", kw.get("disable_vary")) + _resolve(w, "vary_name", kw.get("disable_vary_name"))):
                            if not va[j]:
                                raise OViolation(prop + ".temp_disable_sticks", "%s: knob %d was disabled only for this call but is still inactive after it" % (where, j))
                            count("per_call_disable_checks")
                        for j in _resolve(w, "target", kw.get("disable_target")):
                            if not ta[j]:
                                raise OViolation(prop + ".temp_disable_sticks", "%s: target %d was disabled only for this call but is still inactive after it" % (where, j))
                            count("per_call_disable_checks")
                        named = set(_resolve(w, "vary", kw.get("disable_vary")) + _resolve(w, "vary_name", kw.get("disable_vary_name")) +
                                    _resolve(w, "vary", kw.get("enable_vary")) + _resolve(w, "vary_name", kw.get("enable_vary_name")))
                        for j in range(spec["nk"]):
                            if j not in named and va[j] != vfb[j]:
                                raise OViolation(prop + ".flags_changed", "%s: the active flag of knob %d changed from %s to %s although the call did not name it"
                                                 % (where, j, vfb[j], va[j]))
                # ---- the reference without Broyden steps (linear plants)
                if bref is not None:
                    c3 = c if c[0] not in ("step", "solve") else (c[0], {k: v for k, v in c[1].items() if k != "broyden"})
                    v3, e3 = apply_call(bref, c3)
                    if c[0] in ("step", "solve"):
                        if not all(during_v) or (valid_t is not None and any(a and not b for a, b in zip(during_t, valid_t))):
                            bref = None          # a knob was inactive, or a target came back: the secant Jacobian may legitimately differ
                        else:
                            valid_t = list(during_t) if valid_t is None else [a and b for a, b in zip(during_t, valid_t)]
                    if bref is not None and (exc is not None or e3 is not None):
                        bref = None
                    if bref is not None and c[0] in ("step", "solve"):
                        l1, l3 = w.raw_log(), bref.raw_log()
                        conds = [float(x) for x in list(l1["last_jac_cond"][n0:]) + list(l3["last_jac_cond"][n0:])]
                        if any((x != x) or x > 1e3 for x in conds):
                            bref = None          # ill-conditioned: rounding of the finite differences is amplified
                        # the discrete decisions of the line search (bisection depth, knobs held at a limit, number of steps)
                        # must have gone the same way: a trial point that lands on a limit to the last bit is inside for one
                        # and outside for the other
                        if len(l1["penalty"]) != len(l3["penalty"]) or [x for x in l1["alpha"][n0:]] != [x for x in l3["alpha"][n0:]] or \
                                list(l1["hit_limits"][n0:]) != list(l3["hit_limits"][n0:]):
                            bref = None
                    if bref is not None and c[0] in ("step", "solve"):
                        # a secant update between two (nearly) identical points divides rounding noise by rounding noise
                        pts = ([prev_jac_k] if prev_jac_k is not None else []) + [[float(x) for x in l1["knobs"][r]] for r in range(n0, len(l1["knobs"]))
                                                                                    if l1["tag"][r] != "take_best"]
                        for p_, q_ in zip(pts, pts[1:]):
                            if max(abs(a - b) for a, b in zip(p_, q_)) <= 1e-6 * (1.0 + max(abs(b) for b in q_)):
                                bref = None
                                break
                    if bref is not None:
                        ka, kb3 = w.knob_values(), bref.knob_values()
                        for j, (a, b) in enumerate(zip(ka, kb3)):
                            if abs(a - b) > 1e-3 * (1.0 + abs(b)):
                                raise OViolation(prop + ".broyden_reference", "%s: knob %d ends at %r; the same history with finite-difference Jacobians "
                                                 "instead of Broyden updates (linear plant: the two coincide) gives %r; targets active in this call %s, "
                                                 "active in every earlier call %s" % (where, j, a, b, list(during_t), valid_t))
                        if c[0] in ("step", "solve") and c[1].get("broyden"):
                            count("broyden_calls_compared_with_finite_differences")
                            if not all(during_t):
                                count("broyden_calls_compared_with_a_target_disabled")
                        if len(w.raw_log()["penalty"]) != len(bref.raw_log()["penalty"]):
                            bref = None          # one of the two stopped a (rounding-level) step earlier: row numbers no longer correspond
                # ---- the twin: a disabled target has no influence
                if twin is not None:
                    v2, e2 = apply_call(twin, c)
                    twin.disarm()
                    twin.fired = []
                    if (exc is None) != (e2 is None) or (exc is not None and type(exc) is not type(e2)):
                        raise OViolation(prop + ".disabled_target_influence", "%s: outcome %r, but %r when only the output of the disabled target %d is different"
                                         % (where, exc, e2, tt))
                    l1, l2 = w.raw_log(), twin.raw_log()
                    if c[0] == "solve" and exc is not None:
                        # the failed solve restored iteration 0 (and logged it): the target is active again from here on
                        twin = None
                        continue
                    if [list(x) for x in l1["knobs"]] != [list(x) for x in l2["knobs"]] or \
                            [float(p) for p in l1["penalty"][n_dis:]] != [float(p) for p in l2["penalty"][n_dis:]] or list(l1["alpha"]) != list(l2["alpha"]) or \
                            w.knob_values() != twin.knob_values():
                        raise OViolation(prop + ".disabled_target_influence", "%s: the knob trajectory / penalties differ when only the output of the disabled target %d is different"
                                         % (where, tt))
                    count("twin_calls_compared")
                    if c[0] == "solve" and exc is not None:
                        twin = None         # the failed solve restored iteration 0, where the target is active again
            count("events", w.n_eval)
        except OViolation as v:
            return {"violation": dict(v.to_json(), step=i), "nontrivial": steps_checked > 0 or stats.get("disabled_knob_checks", 0) > 0,
                    "stats": stats, "extra": {"counters": {"jacobian_steps_checked_for_max_step": steps_checked}}, "trace_digest": None}
        return {"violation": None, "nontrivial": stats.get("call:step", 0) + stats.get("call:solve", 0) > 0, "stats": stats,
                "extra": {"counters": {"jacobian_steps_checked_for_max_step": steps_checked}}, "trace_digest": digest(sorted(stats.items()))}


class C15:
    prop = "C15"
    shrink_parts = ("calls",)
    KINDS = ["step", "step", "step", "solve", "reload", "reload_tag", "tag", "enable", "disable", "clear_log", "set_knob"]
    case_from_json = staticmethod(hist_from_json)

    @staticmethod
    def generate(ctx, run):
        return gen_history(ctx, run, "C15", C15.KINDS, 0.3)

    @staticmethod
    def execute(ctx, case):
        prop = "C15"
        spec = case["spec"]
        stats = {}

        def count(k, n=1):
            stats[k] = stats.get(k, 0) + n

        i = -1
        rows_checked = 0
        try:
            val, exc = call(lambda: OWorld(ctx.xd, spec))
            if exc is not None:
                return {"violation": None, "nontrivial": False, "stats": {"construction_failed": 1}, "extra": {}, "trace_digest": None}
            w = val
            tainted = set()       # log rows written by a call during which a fault fired (excluded from reproduction only)
            for i, c in enumerate(case["calls"]):
                if not applicable(w, c):
                    count("skipped")
                    continue
                where = "call %d %s%s" % (i, c[0], c[1] if len(c) > 1 else "")
                n0 = len(w.raw_log()["penalty"])
                fl = [f for f in case["faults"] if f[0] == i]
                if fl:
                    w.arm(raises=[f[2] for f in fl if f[1] == "raise"], fails=[f[2] for f in fl if f[1] == "failed"])
                kb = w.knob_values()
                dv, dt = call_flags(w, c[1]) if c[0] == "step" else (w.vary_flags(), w.target_flags())
                val, exc = apply_call(w, c)
                w.disarm()
                fired = bool(w.fired)
                for f in w.fired:
                    count("fault:action_%s" % ("raises" if f[1] == "raise" else "returns_failed"))
                w.fired = []
                count("call:" + c[0])
                if exc is not None:
                    count("call_raised:" + type(exc).__name__)
                check_call_error(prop, where, c, exc)
                check_log_aligned(w, prop, where, read=(h64("logread", _json.dumps(c, sort_keys=True)) % 3 == 0))      # decided by the call itself: stable when other calls are removed
                n1 = len(w.raw_log()["penalty"])
                if c[0] == "clear_log":
                    tainted = set()
                    n0 = 0
                if fired:
                    tainted.update(range(n0, n1))
                if c[0] in ("step", "solve") and exc is None and not fired:
                    check_row_flags(w, prop, where, n0, dv, dt)
                if c[0] in ("step", "solve") and exc is None and c[1].get("take_best", True) and not fired:
                    # independent of the log: the call must not end at a higher penalty than where it started (with the
                    # flags of this call), unless it ends within tolerance
                    cur = w.knob_values()
                    lim_ok = True
                    if not spec["opts"].get("check_limits", True):
                        # without limit checks the starting point may lie outside the limits and is clipped first
                        lim_ok = all(l is None or l[0] <= v <= l[1] for l, v in zip(spec["limits"], kb))
                    if lim_ok and not all(w.within_tol(cur, dt)):
                        p0, p1 = w.penalty(kb, dt), w.penalty(cur, dt)
                        if p1 > p0 * (1 + 1e-9) + w.penalty_noise(cur, dt) + 1e-300:
                            raise OViolation(prop + ".ends_worse", "%s: the call started at penalty %r (knobs %s) and ended at %r (knobs %s), "
                                             "not within tolerance" % (where, p0, kb, p1, cur))
                        count("start_end_penalty_checks")
                if c[0] == "step" and exc is None and c[1].get("take_best", True) and not fired:
                    r = check_take_best(w, prop, where, n0, c[1])
                    if r:
                        count("take_best_" + r)
                if c[0] == "solve" and exc is None and c[1].get("take_best", True) and not fired:
                    r = check_take_best(w, prop, where, n0, None)
                    if r:
                        count("take_best_" + r)
            rows_checked = check_reproducible(w, prop, "end of history", tainted)
            count("events", w.n_eval)
        except OViolation as v:
            return {"violation": dict(v.to_json(), step=i), "nontrivial": True, "stats": stats,
                    "extra": {"counters": {"log_rows_reproduced": rows_checked}}, "trace_digest": None}
        return {"violation": None, "nontrivial": rows_checked > 1, "stats": stats,
                "extra": {"counters": {"log_rows_reproduced": rows_checked}}, "trace_digest": digest(sorted(stats.items()))}
