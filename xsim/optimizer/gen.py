"""Seeded generation of optimisation problems and call histories (pure: no xdeps)."""
import math


def _r(rng, lo, hi, nd=3):
    return round(rng.uniform(lo, hi), nd)


def gen_problem(rng, tier="quick", **over):
    nk = rng.choice([1, 2, 2, 3, 3, 4])
    family = rng.choice(["lin_consistent", "lin_consistent", "lin_inconsistent", "rank_def", "quad", "quad", "mix", "trig"])
    if family == "lin_inconsistent":
        nt = rng.randint(nk + 1, min(5, nk + 2))
    elif family == "rank_def":
        nt = rng.randint(1, 4)
    else:
        nt = rng.randint(1, min(5, nk + 1)) if rng.random() < 0.7 else nk
    kind = {"lin_consistent": "lin", "lin_inconsistent": "lin", "rank_def": "lin", "quad": "quad", "mix": "mix", "trig": "trig"}[family]
    A = [[_r(rng, -2, 2, 2) for _ in range(nk)] for _ in range(nt)]
    if family == "rank_def" and nk >= 2:
        for row in A:
            row[1] = round(2 * row[0], 2)          # dependent columns
    if kind == "quad":
        A = [[abs(a) + 0.2 if j == (i % nk) else 0.0 for j, a in enumerate(row)] for i, row in enumerate(A)]
    for i, row in enumerate(A):
        if all(abs(a) < 0.05 for a in row):
            row[i % nk] = 1.0
    plant = {"kind": kind, "A": A, "b": [_r(rng, -1, 1, 2) for _ in range(nt)]}
    if kind in ("quad", "trig"):
        plant["c"] = [_r(rng, -1, 1, 2) for _ in range(nk)]
    if kind == "mix":
        plant["q"] = [_r(rng, -0.5, 0.5, 2) for _ in range(nt)]
    # limits and start
    limits = []
    start = []
    for j in range(nk):
        r = rng.random()
        if r < 0.35:
            limits.append(None)
            start.append(_r(rng, -1, 1))
        else:
            lo = _r(rng, -3, 0.5, 2)
            hi = round(lo + rng.choice([0.5, 1.0, 2.0, 4.0]), 2)
            if rng.random() < 0.2:
                lo = 0.0 if rng.random() < 0.5 else lo
                hi = max(hi, lo + 0.5)
            limits.append([lo, hi])
            start.append(round(rng.uniform(lo, hi), 3) if rng.random() < 0.85 else rng.choice([lo, hi]))
    # target values
    from .world import plant_eval
    where = rng.random()
    if family == "lin_inconsistent":
        values = [_r(rng, -3, 3, 2) for _ in range(nt)]
    else:
        ksol = []
        for j in range(nk):
            lim = limits[j]
            if lim is None:
                ksol.append(_r(rng, -1.5, 1.5))
            elif where < 0.6:
                ksol.append(round(rng.uniform(lim[0], lim[1]), 3))      # solution inside the limits
            else:
                ksol.append(round(lim[1] + rng.choice([0.5, 2.0, 10.0]), 3) if rng.random() < 0.5 else round(lim[0] - rng.choice([0.5, 2.0]), 3))
        values = plant_eval(plant, ksol)
        if kind == "quad" and rng.random() < 0.15:
            values = [v - 1.0 for v in values]      # unattainable (below the minimum)
    steps = [rng.choice([1e-6, 1e-7, 1e-5]) for _ in range(nk)]
    if kind == "lin" and family != "lin_inconsistent" and rng.random() < 0.12:
        # the matched point lies just outside one knob's limit, exactly one (large) Jacobian step away from a start on
        # that limit, all other knobs already at their solution: the finite-difference probe lands on the solution
        j = rng.randrange(nk)
        st = rng.choice([0.05, 0.1, 0.3])
        steps[j] = st
        if limits[j] is None:
            limits[j] = [round(start[j] - 1.0, 2), start[j]]
        start[j] = limits[j][1]
        ksol = [start[i] for i in range(nk)]
        ksol[j] = start[j] + st
        values = plant_eval(plant, ksol)
        family = family + "+probe_on_solution"
    tiny = False
    if family in ("lin_consistent", "quad") and rng.random() < 0.04:
        # targets with a tiny weight, started a hair away from the solution: the weighted penalty is below the solver's
        # absolute tolerance although no target is within its own tolerance
        tiny = True
        if all(limits[j] is None or limits[j][0] <= ksol[j] + 1e-8 * (1 + j) <= limits[j][1] for j in range(nk)):
            start = [ksol[j] + 1e-8 * (1 + j) for j in range(nk)]
        else:
            tiny = False
        if tiny:
            family = family + "+tiny_weights"
    unit = rng.random() < 0.6
    spec = {
        "family": family, "nk": nk, "nt": nt, "plant": plant, "start": start, "limits": limits,
        "weights": [1.0 if unit else rng.choice([1.0, 0.5, 2.5, 10.0, 0.1]) for _ in range(nk)],
        "tweights": [1.0 if rng.random() < 0.6 else rng.choice([0.5, 2.0, 10.0]) for _ in range(nt)],
        "tols": [rng.choice([1e-6, 1e-8, 1e-5, 1e-9]) for _ in range(nt)],
        "values": values,
        "steps": steps,
        "max_step": [None if rng.random() < 0.6 else rng.choice([0.05, 0.2, 0.5, 1.0]) for _ in range(nk)],
        "tags": ["g%d" % (j % 2) for j in range(nk)],
        "ttags": ["t%d" % (j % 2) for j in range(nt)],
        "vary_active": [True] * nk, "target_active": [True] * nt,
        "opts": {"n_steps_max": rng.choice([3, 5, 10, 20]), "restore_if_fail": True, "assert_within_tol": True,
                 "check_limits": True, "solver_options": {}},
    }
    if tiny:
        spec["tweights"] = [1e-13] * nt
        spec["tols"] = [1e-10] * nt
    if rng.random() < 0.1:
        spec["same_name"] = True           # knobs that share a name, each in its own container
    if rng.random() < 0.1 and not over.get("start_inside"):
        # limits are not enforced on evaluation (check_limits=False): the optimizer clips when it steps; a knob may then
        # start outside its limits
        spec["opts"]["check_limits"] = False
        for j in range(nk):
            if limits[j] is not None and rng.random() < 0.5:
                spec["start"][j] = round(limits[j][1] + rng.choice([0.5, 2.0]), 3) if rng.random() < 0.5 else round(limits[j][0] - rng.choice([0.5, 2.0]), 3)
    so = spec["opts"]["solver_options"]
    if rng.random() < 0.3:
        so["n_bisections"] = rng.choice([1, 2, 5])
    if rng.random() < 0.2:
        so["max_rel_penalty_increase"] = rng.choice([2.0, 100.0])
    if rng.random() < 0.15:
        so["error_on_penalty_increase"] = rng.choice([10, 1000])
    if rng.random() < 0.2 and nk >= 2:
        j = rng.randrange(nk)
        spec["vary_active"][j] = False
        if rng.random() < 0.5:
            spec["max_step"][j] = 0.0      # a knob that must not move at all
    if rng.random() < 0.2 and nt >= 2:
        j = rng.randrange(nt)
        spec["target_active"][j] = False
    if rng.random() < 0.25 and not spec.get("same_name"):
        # names and tags that are prefixes of one another (k1 / k10 / k100, g1 / g10, t1 / t10): selecting by name or tag is a
        # full match, 'k1' does not mean 'k10'
        spec["names"] = ["k1", "k10", "k100", "k1000", "k10000", "k100000"][:nk]
        spec["tags"] = ["g1" if j % 2 == 0 else "g10" for j in range(nk)]
        spec["ttags"] = ["t1" if j % 2 == 0 else "t10" for j in range(nt)]
    over.pop("start_inside", None)
    spec.update(over)
    return spec


def C_sel(rng, what, nk, nt, names, vtags, ttags):
    """what enable()/disable() is given: an index, or (30 %) a tag; a name for vary_name"""
    if what == "vary_name":
        return rng.choice(names)
    if rng.random() < 0.3:
        return rng.choice(vtags if what == "vary" else ttags)
    return rng.randrange(nk) if what == "vary" else rng.randrange(nt)


def gen_call(rng, spec, kinds):
    """one call of the C15 alphabet (JSON-able)"""
    k = rng.choice(kinds)
    nk, nt = spec["nk"], spec["nt"]
    names = spec.get("names") or ["k%d" % i for i in range(nk)]
    vtags, ttags = sorted(set(spec["tags"])), sorted(set(spec["ttags"]))
    if k == "step":
        kw = {"n_steps": rng.choice([1, 1, 2, 3, 5]), "take_best": rng.random() < 0.8}
        r = rng.random()
        if r < 0.2:
            kw["broyden"] = True
        elif r < 0.3:
            kw["broyden"] = rng.choice([2, 3])
        if rng.random() < 0.15:
            kw["rcond"] = rng.choice([1e-12, 1e-3, 0.1])
        if rng.random() < 0.1:
            kw["sing_val_cutoff"] = rng.choice([1, 2, 3])      # number of singular values kept
        r = rng.random()
        if r < 0.12 and nk >= 2:
            kw["disable_vary"] = [rng.randrange(nk)] if rng.random() < 0.6 else rng.choice(vtags)
        elif r < 0.2 and nk >= 2:
            kw["disable_vary_name"] = [rng.choice(names)]
        elif r < 0.3 and nt >= 2:
            kw["disable_target"] = [rng.randrange(nt)] if rng.random() < 0.7 else rng.choice(ttags)
        elif r < 0.35:
            kw["enable_vary"] = [rng.randrange(nk)]
        elif r < 0.4:
            kw["enable_target"] = [rng.randrange(nt)]
        return ("step", kw)
    if k == "solve":
        kw = {}
        if rng.random() < 0.3:
            kw["n_steps"] = rng.choice([1, 2, 5])
        if rng.random() < 0.2:
            kw["broyden"] = True
        if rng.random() < 0.2:
            kw["take_best"] = False
        return ("solve", kw)
    if k == "run":
        # one of the scipy-based runs on the same merit function (they end with a tagged log row)
        meth = ["simplex", "simplex", "ls_trf", "l_bfgs_b"]
        if all(l is not None for l in spec["limits"]):
            meth.append("direct")
        m = rng.choice(meth)
        return ("run", m, rng.choice([5, 15, 40]) if m in ("simplex", "direct") else rng.choice([3, 10]))
    if k == "reload":
        return ("reload", rng.randint(0, 30))
    if k == "reload_tag":
        return ("reload_tag", rng.choice(["a", "b", "c"]))
    if k == "tag":
        return ("tag", rng.choice(["a", "b", "c", ""]))
    if k == "enable":
        what = rng.choice(["vary", "target", "vary_name"])
        return ("enable", what, C_sel(rng, what, nk, nt, names, vtags, ttags))
    if k == "disable":
        what = rng.choice(["vary", "target", "vary_name"])
        return ("disable", what, C_sel(rng, what, nk, nt, names, vtags, ttags))
    if k == "clear_log":
        return ("clear_log",)
    if k == "set_knob":
        j = rng.randrange(nk)
        lim = spec["limits"][j]
        v = round(rng.uniform(-1, 1), 3) if lim is None else round(rng.uniform(lim[0], lim[1]), 3)
        return ("set_knob", j, v)
    raise AssertionError(k)
