"""Command line of the checks (see /verif/check)."""
import argparse
import os
import sys


def main():
    ap = argparse.ArgumentParser(prog="check")
    ap.add_argument("what")
    ap.add_argument("--tier", default=os.environ.get("VERIF_TIER", "quick"))
    ap.add_argument("--replay", default=None)
    ap.add_argument("--runs", type=int, default=None)
    ap.add_argument("--budget", type=float, default=None)
    ap.add_argument("--nproc", type=int, default=None)
    ap.add_argument("--seed", type=int, default=None)
    a = ap.parse_args()
    seed = a.seed
    if seed is None and os.environ.get("VERIF_SEED"):
        seed = int(os.environ["VERIF_SEED"])
    if a.what == "setup":
        from . import selfcheck
        return selfcheck.setup()
    if a.what == "selftest":
        from . import selfcheck
        return selfcheck.determinism(seed)
    if a.what == "sensitivity":
        from . import selfcheck
        return selfcheck.sensitivity()
    from . import runner
    from .registry import REG
    if a.what not in REG:
        print("unknown check %r (known: %s)" % (a.what, ", ".join(sorted(REG))))
        return 2
    cross = "cross" in REG[a.what]
    if a.replay:
        return (runner.run_cross_replay if cross else runner.run_replay)(a.what, a.replay)
    if a.tier not in ("quick", "thorough"):
        a.tier = "quick"
    fn = runner.run_cross if cross else runner.run_check
    return fn(a.what, a.tier, seed, nproc=a.nproc, runs=a.runs, budget=a.budget)


if __name__ == "__main__":
    sys.exit(main())
