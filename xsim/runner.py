"""Parent process of a check: build, fan out worker interpreters, verify replays,
write evidence, decide the exit code (DESIGN 3.3, 3.6, 3.8)."""
import fnmatch
import json
import os
import subprocess
import sys
import time
from concurrent.futures import ThreadPoolExecutor

from . import build
from .common import hashseed_for
from .registry import REG

VERIF = os.path.dirname(os.path.dirname(os.path.abspath(__file__)))
# dev tools (tools/run_seeded.py, sensitivity self-test) send replays/evidence of runs against patched scratch trees elsewhere
REPLAY_DIR = os.environ.get("XSIM_REPLAY_DIR") or os.path.join(VERIF, "replays")
EVIDENCE_DIR = os.environ.get("XSIM_EVIDENCE_DIR") or os.path.join(VERIF, "evidence")
PY = build.PY
DEFAULT_SEED = 20260929

_BOOT = "import sys; sys.path.insert(0, %r); from xsim.worker import main; sys.exit(main())" % VERIF

_setarch = None


def setarch_prefix():
    global _setarch
    if _setarch is None:
        _setarch = []
        if os.environ.get("XSIM_NO_SETARCH") != "1":
            try:
                r = subprocess.run(["setarch", "x86_64", "-R", "true"], capture_output=True, timeout=20)
                if r.returncode == 0:
                    _setarch = ["setarch", "x86_64", "-R"]
            except Exception:
                pass
    return _setarch


def worker_cmd(scratch, build_mode, hashseed, args):
    env = dict(os.environ)
    env["PYTHONHASHSEED"] = str(hashseed)
    env["PYTHONPATH"] = scratch[build_mode]
    env["PYTHONDONTWRITEBYTECODE"] = "1"
    for k in ("OPENBLAS_NUM_THREADS", "OMP_NUM_THREADS", "MKL_NUM_THREADS"):
        env[k] = "1"
    cmd = setarch_prefix() + [PY, "-c", _BOOT] + args + ["--build", build_mode, "--scratch", scratch[build_mode]]
    return cmd, env


def run_worker(scratch, build_mode, hashseed, args, timeout):
    cmd, env = worker_cmd(scratch, build_mode, hashseed, args)
    try:
        r = subprocess.run(cmd, env=env, capture_output=True, text=True, timeout=timeout, cwd=VERIF)
    except subprocess.TimeoutExpired as e:
        return {"type": "error", "msg": "worker wall timeout after %ss: %s" % (timeout, " ".join(args))}, ""
    lines = [l for l in r.stdout.splitlines() if l.startswith("{")]
    if not lines:
        return {"type": "error", "msg": "worker produced no result (rc=%s)\nstderr: %s" % (r.returncode, r.stderr[-3000:])}, r.stderr
    try:
        return json.loads(lines[-1]), r.stderr
    except Exception as e:
        return {"type": "error", "msg": "bad worker output: %r" % (lines[-1][:500],)}, r.stderr


def load_known(prop):
    """Open findings of this property from the committed file (never written at run time)."""
    out = []
    p = os.path.join(VERIF, "known_findings.txt")
    if not os.path.exists(p):
        return out
    with open(p) as fh:
        for line in fh:
            line = line.strip()
            if not line.startswith("finding:"):
                continue
            head, _, text = line[len("finding:"):].partition("::")
            kv = dict(x.split("=", 1) for x in head.split() if "=" in x)
            if kv.get("property") == prop:
                kv["text"] = text.strip()
                out.append(kv)
    return out


def plan_batches(prop, tier, seed, n_runs, bs, builds):
    batches = []
    b = 0
    lo = 0
    while lo < n_runs:
        hi = min(lo + bs, n_runs)
        batches.append({"batch": b, "lo": lo, "hi": hi, "build": builds[b % len(builds)],
                        "hashseed": hashseed_for(seed, prop, b)})
        lo = hi
        b += 1
    return batches


def replay_file(scratch, path, prop=None):
    with open(path) as fh:
        rp = json.load(fh)
    prop = prop or rp["property"]
    bm = rp.get("build", "pure")
    if scratch.get(bm) is None:
        bm = "pure"
    res, err = run_worker(scratch, bm, rp.get("hashseed", 0),
                          ["--prop", prop, "--seed", str(rp.get("seed", 0)), "--tier", rp.get("tier", "quick"),
                           "--replay", path], timeout=900)
    return rp, res


def history_dependent_replay(scratch, prop, seed, tier, v, batches, known_cls):
    """v did not reproduce alone.  Execute the runs of its batch up to v['run'] in ONE fresh interpreter (same build and
    hash seed); if the violation is back, minimise the list of earlier runs and write a 'runlist' replay file."""
    from .common import ddmin
    b = [x for x in batches if x["lo"] <= v["run"] < x["hi"]]
    if not b:
        return None
    b = b[0]

    def run_list(runs):
        res, err = run_worker(scratch, b["build"], b["hashseed"],
                              ["--prop", prop, "--seed", str(seed), "--tier", tier, "--known", ",".join(known_cls),
                               "--runlist", ",".join(str(r) for r in runs)], timeout=900)
        if res.get("type") != "runlist":
            return None
        vv = res.get("violation")
        return vv is not None and vv["cls"] == v["cls"] and res.get("at") == v["run"]

    prefix = list(range(b["lo"], v["run"]))
    if not run_list(prefix + [v["run"]]):
        return None
    small = ddmin(prefix, lambda sub: bool(run_list(list(sub) + [v["run"]])), max_tests=40) if len(prefix) > 1 else prefix
    if not run_list(list(small) + [v["run"]]):
        small = prefix
    os.makedirs(REPLAY_DIR, exist_ok=True)
    path = os.path.join(REPLAY_DIR, "%s-%d-%d-runlist.json" % (prop, seed, v["run"]))
    with open(path, "w") as fh:
        json.dump({"property": prop, "seed": seed, "tier": tier, "kind": "runlist", "build": b["build"], "hashseed": b["hashseed"],
                   "runs": list(small) + [v["run"]], "violation": {"cls": v["cls"], "msg": v["msg"]},
                   "note": "the cases are regenerated from (seed, run index); they are executed in this order in one interpreter"}, fh)
    return path


def write_evidence(prop, tier, seed, level, coverage, wall, nviol, assumptions):
    os.makedirs(EVIDENCE_DIR, exist_ok=True)
    ev = {"property_id": prop, "tier": tier, "seed": seed, "level": level, "coverage": coverage,
          "assumptions": assumptions, "wall_s": round(wall, 2), "violations": nviol}
    p = os.path.join(EVIDENCE_DIR, "%s.json" % prop)
    tmp = p + ".tmp"
    with open(tmp, "w") as fh:
        json.dump(ev, fh, indent=1, default=repr)
    os.replace(tmp, p)
    return p


ASSUMPTIONS = [
    "the reference model (xsim/*/model.py) states the property correctly; it is independent of xdeps",
    "schedules are reached through set-iteration order (PYTHONHASHSEED x name salt x build); orders that no "
    "(hash seed, name) pair of this run produces are not explored",
    "seeded sampling: a clean run is evidence, not proof",
    "CPython 3.12 / numpy as installed in /venv",
]


def run_check(prop, tier="quick", seed=None, nproc=None, runs=None, budget=None, quiet=False):
    t0 = time.time()
    build.install_signal_cleanup()
    reg = REG[prop]
    seed = DEFAULT_SEED if seed is None else seed
    nproc = nproc or int(os.environ.get("XSIM_NPROC", os.cpu_count() or 4))
    n_runs = int(runs or os.environ.get("XSIM_RUNS") or reg["runs"][tier])
    bs = reg["batch"][tier]
    budget = float(budget or os.environ.get("XSIM_BUDGET_S") or reg["budget"][tier])
    builds = list(reg["builds"])
    try:
        scratch = build.make_scratch(need_compiled=("compiled" in builds))
    except Exception as e:
        print("HARNESS-ERROR: build failed: %s" % e)
        return 2
    t_build = time.time() - t0
    known = load_known(prop)
    known_cls = sorted(set(k["class"] for k in known if "class" in k))
    batches = plan_batches(prop, tier, seed, n_runs, bs, builds)
    base_args = ["--prop", prop, "--seed", str(seed), "--tier", tier, "--known", ",".join(known_cls),
                 "--replay-dir", REPLAY_DIR]
    results = [None] * len(batches)
    t_search0 = time.time()
    stop = {"flag": False}

    def do(i):
        if stop["flag"] or (time.time() - t_search0) > budget:
            return
        b = batches[i]
        res, err = run_worker(scratch, b["build"], b["hashseed"],
                              base_args + ["--runs", "%d:%d" % (b["lo"], b["hi"]), "--batch", str(b["batch"])],
                              timeout=max(600, budget * 2))
        results[i] = res
        if res.get("type") == "error" or res.get("violations"):
            stop["flag"] = True

    with ThreadPoolExecutor(max_workers=nproc) as tp:
        list(tp.map(do, range(len(batches))))
    t_search = time.time() - t_search0

    errors = [r for r in results if r is not None and r.get("type") == "error"]
    done = [r for r in results if r is not None and r.get("type") == "batch"]
    skipped = sum(1 for r in results if r is None)
    if errors:
        print("HARNESS-ERROR: %s" % errors[0]["msg"][:6000])
        build.remove_scratch(scratch)
        return 2
    evaluations = sum(r["evaluations"] for r in done)
    digests = set()
    nontriv = set()
    stats = {}
    inter = set()
    graphs = {}
    samples = []
    known_seen = {}
    viols = []
    hashseeds = set()
    cpu = 0.0
    for r in done:
        digests.update(r["digests"])
        nontriv.update(r["nontrivial"])
        for k, n in r["stats"].items():
            stats[k] = stats.get(k, 0) + n
        for g, o in r.get("inter", ()):
            inter.add((g, o))
            graphs.setdefault(g, set()).add(o)
        if len(samples) < 3:
            samples.extend(r["samples"][: 3 - len(samples)])
        for cls, k in r["known"].items():
            e = known_seen.setdefault(cls, {"count": 0, "first": k["first"]})
            e["count"] += k["count"]
        viols.extend(r["violations"])
        hashseeds.add((r["build"], r["hashseed"]))
        cpu += r.get("cpu_s", 0.0)

    rc = 0
    confirmed = []
    # ---- new violations: replay each class once in a fresh interpreter ----
    viols.sort(key=lambda v: v["run"])
    seen_cls = set()
    for v in viols:
        if v["cls"] in seen_cls:
            continue
        seen_cls.add(v["cls"])
        rp, res = replay_file(scratch, v["replay"], prop)
        rv = res.get("violation") if res.get("type") == "replay" else None
        if rv is not None and rv["cls"] == v["cls"]:
            confirmed.append(v)
            print("VIOLATION property=%s replay=%s" % (prop, v["replay"]))
            print("  class=%s run=%s step=%s" % (v["cls"], v["run"], v.get("step")))
            print("  %s" % v["msg"][:1500])
            rc = 1
        else:
            # not reproducible from the single case: does it depend on what ran earlier in the same interpreter
            # (state that the system under test keeps per process)?  Re-run the batch prefix in a fresh interpreter.
            hist = history_dependent_replay(scratch, prop, seed, tier, v, batches, known_cls)
            if hist is not None:
                confirmed.append(v)
                print("VIOLATION property=%s replay=%s" % (prop, hist))
                print("  class=%s run=%s (only after the earlier runs listed in the replay file ran in the same interpreter: "
                      "the system keeps state across independent cases)" % (v["cls"], v["run"]))
                print("  %s" % v["msg"][:1500])
                rc = 1
                continue
            print("HARNESS-ERROR: violation %s of run %s did not reproduce from %s in a fresh interpreter (%s)"
                  % (v["cls"], v["run"], v["replay"], (res.get("msg") or res)))
            if rc == 0:
                rc = 2
    # ---- known findings: witness replay -------------------------------------
    for k in known:
        wpath = os.path.join(VERIF, k.get("witness", ""))
        still = None
        if k.get("witness") and os.path.exists(wpath):
            rp, res = replay_file(scratch, wpath, prop)
            if res.get("type") == "error":
                print("HARNESS-ERROR: witness replay failed: %s" % res["msg"][:2000])
                rc = rc or 2
                continue
            rv = res.get("violation")
            still = rv is not None and fnmatch.fnmatchcase(rv["cls"], k.get("class", ""))
        seen = sum(e["count"] for cls, e in known_seen.items() if fnmatch.fnmatchcase(cls, k.get("class", "")))
        if still or seen:
            print("KNOWN-FINDING: property=%s %s %s (witness %s; %d matching cases in this run)"
                  % (prop, k.get("id", ""), k["text"], "still fails" if still else "not replayed", seen))
        else:
            print("NOTE: known finding %s of %s no longer reproduces (witness passes, no matching case)" % (k.get("id"), prop))

    wall = time.time() - t0
    per_hour = int(evaluations / max(t_search, 1e-6) * 3600)
    faults = {k[len("fault:"):]: n for k, n in stats.items() if k.startswith("fault:")}
    probes = {k: n for k, n in stats.items() if not k.startswith("fault:")}
    zero = [k for k in REG[prop].get("expect_probes", ()) if not stats.get(k)]
    coverage = {
        "evaluations": evaluations,
        "distinct_nontrivial": len(nontriv),
        "rule": reg["rule"],
        "samples": samples[:2] if samples else [{"note": "no non-trivial sample collected"}],
        "distinct_cases": len(digests),
        "runs_per_hour_measured": per_hour,
        "seeds_per_hour_measured": per_hour,
        "search_wall_s": round(t_search, 2), "build_wall_s": round(t_build, 2), "worker_cpu_s": round(cpu, 1),
        "worker_interpreters": len(done), "batches_not_run_for_budget": skipped,
        "hash_seeds_used": len(set(h for _, h in hashseeds)),
        "builds_used": sorted(set(b for b, _ in hashseeds)),
        "simulated_time": "none: xdeps has no clock or timer to simulate; logical time = simulator events (manager: container "
                          "accesses + callback invocations; table: API operations; optimizer: plant evaluations)",
        "logical_time_events": stats.get("events", 0),
        "faults_fired": faults,
        "probes": probes,
        "probes_stuck_at_zero": zero,
        "distinct_interleavings": ({"measure": "distinct (triggered-subgraph digest, task execution order) pairs, updates with >= 2 tasks",
                                    "pairs": len(inter), "graphs": len(graphs),
                                    "graphs_seen_with_ge2_orders": sum(1 for g in graphs.values() if len(g) >= 2)} if inter else
                                   {"measure": "not measured by this check (execution orders are accounted in C01/C02); the schedule varies with "
                                               "the %d (build, hash seed) worker configurations listed above" % len(hashseeds)}),
        "components": reg["components"],
        "known_findings_seen": known_seen,
        "source_digest": build.source_digest(),
        "setarch_R": bool(setarch_prefix()),
        "nproc": nproc,
    }
    if zero and not quiet:
        print("WARNING: reach probes stuck at zero: %s" % ", ".join(zero))
    write_evidence(prop, tier, seed, reg["level"], coverage, wall, len(confirmed), ASSUMPTIONS + reg.get("assumptions", []))
    build.remove_scratch(scratch)
    if not quiet:
        print("%s %s: %d runs (%d distinct non-trivial) in %.1fs search (+%.1fs build), %d interpreters, %d hash seeds, builds=%s, "
              "violations=%d, rc=%d" % (prop, tier, evaluations, len(nontriv), t_search, t_build, len(done),
                                        coverage["hash_seeds_used"], ",".join(coverage["builds_used"]), len(confirmed), rc))
    if evaluations == 0 and rc == 0:
        print("HARNESS-ERROR: nothing was executed")
        return 2
    return rc


def run_replay(prop, path):
    build.install_signal_cleanup()
    with open(path) as fh:
        rp = json.load(fh)
    prop = prop or rp["property"]
    need_c = rp.get("build") == "compiled"
    scratch = build.make_scratch(need_compiled=need_c)
    try:
        if rp.get("kind") == "runlist":
            res, err = run_worker(scratch, rp.get("build", "pure"), rp.get("hashseed", 0),
                                  ["--prop", prop, "--seed", str(rp["seed"]), "--tier", rp.get("tier", "quick"), "--known", "",
                                   "--runlist", ",".join(str(r) for r in rp["runs"])], timeout=900)
            if res.get("type") == "runlist":
                res = {"type": "replay", "violation": res.get("violation")}
        else:
            rp, res = replay_file(scratch, path, prop)
    finally:
        build.remove_scratch(scratch)
    if res.get("type") == "error":
        print("HARNESS-ERROR: %s" % res["msg"][:4000])
        return 2
    v = res.get("violation")
    if v is None:
        print("replay of %s: no violation (property held)" % path)
        return 0
    known = load_known(prop)
    for k in known:
        if fnmatch.fnmatchcase(v["cls"], k.get("class", "")):
            print("KNOWN-FINDING: property=%s %s %s" % (prop, k.get("id", ""), k["text"]))
            print("  class=%s step=%s\n  %s" % (v["cls"], v.get("step"), v["msg"][:1500]))
            return 0
    print("VIOLATION property=%s replay=%s" % (prop, path))
    print("  class=%s step=%s\n  %s" % (v["cls"], v.get("step"), v["msg"][:1500]))
    return 1


# ---------------------------------------------------------------------------
# cross-configuration checks (C20): the same programs in several fresh interpreters
# ---------------------------------------------------------------------------
def _cross_replay(scratch, prop, seed, tier, case, cfgs, tmpdir):
    """Run one case under each (build, hashseed) in a fresh interpreter; returns list of (digest, steps) or raises."""
    import tempfile
    fd, path = tempfile.mkstemp(prefix="xcase-", suffix=".json", dir=tmpdir)
    with os.fdopen(fd, "w") as fh:
        json.dump({"property": prop, "seed": seed, "tier": tier, "case": case}, fh, default=repr)
    out = []
    try:
        for b, h in cfgs:
            res, err = run_worker(scratch, b, h, ["--prop", prop, "--seed", str(seed), "--tier", tier, "--replay", path], timeout=300)
            if res.get("type") != "replay":
                raise RuntimeError("cross replay failed: %s" % (res.get("msg") or res))
            if res.get("violation") is not None:
                out.append(("violation:" + res["violation"]["cls"], None))
            else:
                out.append((res.get("trace_digest"), res.get("steps")))
    finally:
        os.remove(path)
    return out


def run_cross(prop, tier="quick", seed=None, nproc=None, runs=None, budget=None):
    t0 = time.time()
    build.install_signal_cleanup()
    reg = REG[prop]
    seed = DEFAULT_SEED if seed is None else seed
    nproc = nproc or int(os.environ.get("XSIM_NPROC", os.cpu_count() or 4))
    n_runs = int(runs or os.environ.get("XSIM_RUNS") or reg["runs"][tier])
    bs = reg["batch"][tier]
    budget = float(budget or os.environ.get("XSIM_BUDGET_S") or reg["budget"][tier])
    nseeds = reg["cross"][tier]
    try:
        scratch = build.make_scratch(need_compiled=True)
    except Exception as e:
        print("HARNESS-ERROR: build failed: %s" % e)
        return 2
    t_build = time.time() - t0
    cfgs = [(b, hashseed_for(seed, prop, "%s%d" % (b, j))) for b in ("compiled", "pure") for j in range(nseeds)]
    ranges = [(lo, min(lo + bs, n_runs)) for lo in range(0, n_runs, bs)]
    jobs = [(r, c) for r in ranges for c in cfgs]
    results = {}
    errors = []
    t_search0 = time.time()

    def do(job):
        (lo, hi), (b, h) = job
        if errors or (time.time() - t_search0) > budget:
            return
        res, err = run_worker(scratch, b, h, ["--prop", prop, "--seed", str(seed), "--tier", tier, "--runs", "%d:%d" % (lo, hi),
                                              "--dump-digests", "--no-shrink"], timeout=max(600, budget * 2))
        if res.get("type") != "batch":
            errors.append(res.get("msg") or str(res))
            return
        results[job] = res

    with ThreadPoolExecutor(max_workers=nproc) as tp:
        list(tp.map(do, jobs))
    t_search = time.time() - t_search0
    if errors:
        print("HARNESS-ERROR: %s" % errors[0][:4000])
        build.remove_scratch(scratch)
        return 2
    stats = {}
    evaluations = 0
    programs = set()
    nontriv = set()
    samples = []
    mismatches = []
    complete_ranges = 0
    cpu = 0.0
    for r in ranges:
        got = [(c, results.get((r, c))) for c in cfgs]
        done = [(c, x) for c, x in got if x is not None]
        for c, x in done:
            evaluations += x["evaluations"]
            cpu += x.get("cpu_s", 0.0)
            for k, n in x["stats"].items():
                stats[k] = stats.get(k, 0) + n
        if len(done) < 2:
            continue
        if len(done) == len(cfgs):
            complete_ranges += 1
        base_c, base = done[0]
        programs.update(base["digests"])
        nontriv.update(base["nontrivial"])
        if len(samples) < 2:
            samples.extend(base["samples"][:2 - len(samples)])
        by_run = {}
        for c, x in done:
            for rd in x["run_digests"]:
                by_run.setdefault(rd[0], []).append((c, rd))
        for run in sorted(by_run):
            lst = by_run[run]
            c0, rd0 = lst[0]
            for c, rd in lst[1:]:
                if rd[1] != rd0[1]:
                    mismatches.append({"run": run, "a": c0, "b": c, "what": "the harness generated different programs under the two configurations"})
                    break
                if rd[2] != rd0[2] or rd[3] != rd0[3]:
                    s0, s1 = rd0[4] or [], rd[4] or []
                    k = 0
                    while k < min(len(s0), len(s1)) and s0[k] == s1[k]:
                        k += 1
                    mismatches.append({"run": run, "a": c0, "b": c, "step": k, "what": "transcripts differ"})
                    break
    rc = 0
    confirmed = 0
    tmpdir = scratch["root"]
    for mm in mismatches[:1]:
        run = mm["run"]
        if mm["what"] != "transcripts differ":
            print("HARNESS-ERROR: run %d: %s (%s vs %s)" % (run, mm["what"], mm["a"], mm["b"]))
            rc = 2
            break
        # fetch the case, confirm in fresh interpreters, minimise across processes, write the replay file
        res, err = run_worker(scratch, mm["a"][0], mm["a"][1], ["--prop", prop, "--seed", str(seed), "--tier", tier,
                                                                "--runs", "%d:%d" % (run, run + 1), "--emit-cases", "--no-shrink"], timeout=600)
        case = (res.get("cases") or {}).get(str(run))
        if case is None:
            print("HARNESS-ERROR: could not fetch the case of run %d" % run)
            rc = 2
            break
        pair = [mm["a"], mm["b"]]

        def fails(c):
            o = _cross_replay(scratch, prop, seed, tier, c, pair, tmpdir)
            return o[0][0] != o[1][0]

        try:
            if not fails(case):
                print("HARNESS-ERROR: transcript mismatch of run %d (%s vs %s) did not reproduce in fresh interpreters" % (run, mm["a"], mm["b"]))
                rc = 2
                break
            from .common import ddmin
            small = dict(case)
            t_end = time.time() + 240

            def f_ops(sub):
                if time.time() > t_end:
                    return False
                c = dict(small)
                c["ops"] = list(sub)
                return fails(c)
            if "ops" in case:
                small["ops"] = ddmin(list(case["ops"]), f_ops, max_tests=60)
            if small.get("epilogue"):
                def f_epi(sub):
                    if time.time() > t_end:
                        return False
                    c = dict(small)
                    c["epilogue"] = list(sub)
                    return fails(c)
                if f_epi([]):
                    small["epilogue"] = []
            o = _cross_replay(scratch, prop, seed, tier, small, pair, tmpdir)
        except RuntimeError as e:
            print("HARNESS-ERROR: %s" % e)
            rc = 2
            break
        s0, s1 = o[0][1] or [], o[1][1] or []
        k = 0
        while k < min(len(s0), len(s1)) and s0[k] == s1[k]:
            k += 1
        os.makedirs(REPLAY_DIR, exist_ok=True)
        path = os.path.join(REPLAY_DIR, "%s-%d-%d.json" % (prop, seed, run))
        with open(path, "w") as fh:
            json.dump({"property": prop, "seed": seed, "run": run, "tier": tier, "configs": pair,
                       "violation": {"cls": prop + ".transcript", "step": k,
                                     "msg": "transcripts differ from step %d on between %s and %s" % (k, pair[0], pair[1])},
                       "case": small, "original_case": case}, fh, default=repr)
        print("VIOLATION property=%s replay=%s" % (prop, path))
        print("  class=%s.transcript run=%d: build=%s hashseed=%s and build=%s hashseed=%s give different transcripts from step %d on "
              "(minimised to %d ops)" % (prop, run, pair[0][0], pair[0][1], pair[1][0], pair[1][1], k, len(small.get("ops", ()))))
        confirmed += 1
        rc = 1
    wall = time.time() - t0
    per_hour = int(evaluations / max(t_search, 1e-6) * 3600)
    coverage = {
        "evaluations": evaluations,
        "distinct_nontrivial": len(nontriv),
        "rule": reg["rule"],
        "samples": samples[:2] if samples else [{"note": "no sample collected"}],
        "distinct_programs": len(programs),
        "configurations": [{"build": b, "hashseed": h} for b, h in cfgs],
        "program_ranges_run_under_all_configurations": complete_ranges,
        "runs_per_hour_measured": per_hour, "seeds_per_hour_measured": per_hour,
        "search_wall_s": round(t_search, 2), "build_wall_s": round(t_build, 2), "worker_cpu_s": round(cpu, 1),
        "worker_interpreters": len(results),
        "simulated_time": "none: xdeps has no clock; logical time = simulator events",
        "faults_fired": {k[len("fault:"):]: n for k, n in stats.items() if k.startswith("fault:")},
        "probes": {k: n for k, n in stats.items() if not k.startswith("fault:")},
        "distinct_interleavings": {"measure": "each program is executed under every listed (build, hash seed) configuration, i.e. under "
                                              "that many set-iteration schedules", "schedules_per_program": len(cfgs)},
        "components": reg["components"],
        "source_digest": build.source_digest(), "setarch_R": bool(setarch_prefix()), "nproc": nproc,
        "transcript_mismatches_seen": len(mismatches),
    }
    write_evidence(prop, tier, seed, reg["level"], coverage, wall, confirmed, ASSUMPTIONS + reg.get("assumptions", []))
    build.remove_scratch(scratch)
    print("%s %s: %d program executions (%d programs, %d non-trivial) under %d configurations in %.1fs (+%.1fs build), mismatches=%d, rc=%d"
          % (prop, tier, evaluations, len(programs), len(nontriv), len(cfgs), t_search, t_build, len(mismatches), rc))
    if evaluations == 0 and rc == 0:
        print("HARNESS-ERROR: nothing was executed")
        return 2
    return rc


def run_cross_replay(prop, path):
    build.install_signal_cleanup()
    with open(path) as fh:
        rp = json.load(fh)
    scratch = build.make_scratch(need_compiled=True)
    try:
        pair = [tuple(c) for c in rp["configs"]]
        o = _cross_replay(scratch, prop, rp.get("seed", 0), rp.get("tier", "quick"), rp["case"], pair, scratch["root"])
    except RuntimeError as e:
        print("HARNESS-ERROR: %s" % e)
        return 2
    finally:
        build.remove_scratch(scratch)
    if o[0][0] == o[1][0]:
        print("replay of %s: transcripts agree (property held)" % path)
        return 0
    print("VIOLATION property=%s replay=%s" % (prop, path))
    print("  build=%s hashseed=%s and build=%s hashseed=%s give different transcripts" % (pair[0][0], pair[0][1], pair[1][0], pair[1][1]))
    return 1
