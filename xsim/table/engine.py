"""Interpreter of abstract table ops against real xdeps Tables and the naive model, with the
per-step oracles of C07 (name resolution), C08 (row selection) and C14 (derivations)."""
import numpy as np

from ..containers import InjectedFault
from .model import MTable, Reject, eval_expr, expr_text
from .world import TWorld, TViolation, FaultyArray, _Plan, call, py, cell_same, np_sel, model_sel, np_row, np_col, as_faulty

MAX_LIVE = 7


def _exp_resolve(m, row):
    """('ok', idx) | ('err', KeyError) | ('skip', None)"""
    try:
        idx = m.resolve(np_row(row))
    except KeyError:
        return "err", KeyError
    except (Reject, ValueError, TypeError):
        return "skip", None
    if isinstance(row, int) and not isinstance(row, bool):
        # a position may be given from the end
        if not (-m.n() <= row < m.n()):
            return "skip", None
        return "ok", row % m.n()
    if not (0 <= idx < m.n()):
        return "skip", None
    return "ok", idx


def step(w, op, prop, strict_others=False):
    """Apply one op.  Raises TViolation.  Returns a short tag for statistics."""
    kind = op[0]
    # table ids come from the generator's picture of the world; an id that does not exist here is skipped
    if kind in ("ctor", "polluter"):
        tids = []
    else:
        tids = [op[1]] if kind != "d_concat" else list(op[1])
    if kind == "d_add":
        tids.append(op[2])
    if any((not isinstance(t, int)) or t >= len(w.real) for t in tids):
        return "skipped"
    if any(t in w.tainted for t in tids):
        return "skipped_aliased"
    # ---------------------------------------------------------------- lookups (C07)
    if kind == "warm":
        t = w.real[op[1]]
        call(lambda: t._get_cache())
        return "warm"
    if kind == "get":
        _, tid, col, row, via = op
        t, m = w.real[tid], w.model[tid]
        how, exp = _exp_resolve(m, row)
        if how == "skip" or col not in m.cols:
            return "skipped"
        r = np_row(row)
        if isinstance(r, int) and via != "item":
            return "skipped"        # a position resolves to itself
        if via == "item":
            val, exc = call(lambda: t[col, r])
        elif via == "get_index":
            val, exc = call(lambda: t.rows.get_index(r))
        else:
            val, exc = call(lambda: t // r)
        where = "table #%d %s %r" % (tid, {"item": "t[%r, row]" % col, "get_index": "rows.get_index", "floordiv": "t // row"}[via], r)
        if how == "err":
            if exc is None:
                raise TViolation(prop + ".lookup_found", "%s returned %r although the index column %s has no such occurrence"
                                 % (where, py(val), m.data[m.index]))
            if not isinstance(exc, KeyError):
                raise TViolation(prop + ".lookup_error_type", "%s raised %s: %s instead of KeyError" % (where, type(exc).__name__, exc))
            return "get_keyerror"
        if exc is not None:
            raise TViolation(prop + ".lookup_raises", "%s raised %s: %s; the index column is %s, expected row %d"
                             % (where, type(exc).__name__, exc, m.data[m.index], exp))
        if via == "item":
            if not cell_same(py(val), m.data[col][exp]):
                raise TViolation(prop + ".lookup_value", "%s returned %r, row %d of the current index column %s holds %r"
                                 % (where, py(val), exp, m.data[m.index], m.data[col][exp]))
        elif py(val) != exp:
            raise TViolation(prop + ".lookup_position", "%s returned %r, a scan of the current index column %s gives %d"
                             % (where, py(val), m.data[m.index], exp))
        return "get_ok"
    if kind == "labels":
        tid = op[1]
        t, m = w.real[tid], w.model[tid]
        val, exc = call(lambda: list(t.cols.get_index_unique()))
        if exc is not None:
            raise TViolation(prop + ".labels_raise", "table #%d cols.get_index_unique() raised %s: %s" % (tid, type(exc).__name__, exc))
        exp = m.unique_labels()
        if [str(x) for x in val] != exp:
            raise TViolation(prop + ".labels", "table #%d reports row labels %s, expected %s" % (tid, val, exp))
        # the same labels as printed by show() (asked for all rows through the rows= argument: without it show() works on -
        # and reorders - the table's own column list)
        txt, e3 = call(lambda: t.show(rows=slice(None), output=str, maxwidth="full", header=False))
        if e3 is not None:
            raise TViolation(prop + ".show_raises", "table #%d show() raised %s: %s" % (tid, type(e3).__name__, e3))
        shown = [ln.split()[0] if ln.split() else "" for ln in txt.split("\n")] if txt else []
        if shown != exp:
            raise TViolation(prop + ".labels_shown", "table #%d show() prints row labels %s, expected %s" % (tid, shown, exp))
        for i, lab in enumerate(val):
            v2, e2 = call(lambda: t.rows.get_index(lab))
            if e2 is not None or py(v2) != i:
                raise TViolation(prop + ".label_resolve", "table #%d: its own row label %r (row %d) resolves to %s"
                                 % (tid, lab, i, ("%s: %s" % (type(e2).__name__, e2)) if e2 is not None else py(v2)))
        return "labels"
    # ---------------------------------------------------------------- mutations
    if kind == "setcell":
        _, tid, col, row, value, fk = op
        t, m = w.real[tid], w.model[tid]
        if col not in m.cols:
            return "skipped"
        kd = w.kinds[tid].get(col)
        if (kd == "i" and not (isinstance(value, int) and not isinstance(value, bool))) or (kd == "f" and not isinstance(value, float)) \
                or (kd in ("s", "o", "u") and not isinstance(value, str)):
            return "skipped"
        how, exp = _exp_resolve(m, row)
        if how == "skip":
            return "skipped"
        r = np_row(row)
        where = "table #%d t[%r, %r] = %r" % (tid, col, r, value)
        if fk is not None and how == "ok" and isinstance(t._data[col], FaultyArray):
            _Plan.countdown = fk
        try:
            val, exc = call(lambda: t.__setitem__((col, r), value))
        finally:
            armed = _Plan.countdown is not None
            _Plan.countdown = None
        if isinstance(exc, InjectedFault):
            w.count("fault:array_write_raises")
            if col == m.index:
                w.taint_sharers(tid)
            for k in range(len(w.real)):
                w.resync_model(k)
            return "setcell_fault"
        if how == "err":
            if exc is None:
                raise TViolation(prop + ".write_found", "%s succeeded although the index column %s has no such occurrence" % (where, m.data[m.index]))
            if not isinstance(exc, KeyError):
                raise TViolation(prop + ".write_error_type", "%s raised %s instead of KeyError" % (where, type(exc).__name__))
            return "setcell_keyerror"
        if exc is not None:
            raise TViolation(prop + ".write_raises", "%s raised %s: %s (index column %s)" % (where, type(exc).__name__, exc, m.data[m.index]))
        m.data[col][exp] = m.clip(col, value)
        if col == m.index:
            w.taint_sharers(tid)
        _after_mutation(w, prop, tid, where)
        return "setcell_index" if col == m.index else "setcell"
    if kind == "setcol":
        _, tid, col, ckind, values, style, fk = op
        t, m = w.real[tid], w.model[tid]
        if len(values) != m.n():
            return "skipped"
        arr = np_col("s" if ckind == "u" else ckind, values)
        where = "table #%d %s %r" % (tid, "t[col] = array" if style == "item" else "t.col = array", col)
        existing = col in m.cols
        if existing and w.kinds[tid].get(col) != ckind and not (w.kinds[tid].get(col) == "u" and ckind == "s"):
            return "skipped"            # an array of another type would be cast by numpy: not what this op means
        if fk is not None and existing and isinstance(t._data[col], FaultyArray):
            _Plan.countdown = fk
        try:
            if style == "item":
                val, exc = call(lambda: t.__setitem__(col, arr))
            else:
                val, exc = call(lambda: setattr(t, col, arr))
        finally:
            _Plan.countdown = None
        if isinstance(exc, InjectedFault):
            w.count("fault:array_write_raises")
            if col == m.index:
                w.taint_sharers(tid)
            for k in range(len(w.real)):
                w.resync_model(k)
            return "setcol_fault"
        if exc is not None:
            raise TViolation(prop + ".setcol_raises", "%s raised %s: %s" % (where, type(exc).__name__, exc))
        if existing:
            m.data[col] = [m.clip(col, v) for v in values]
            if col == m.index:
                w.taint_sharers(tid)
        else:
            m.cols.append(col)
            if m.scalars.pop(col, None) is not None or col in ("energy", "label", "meta"):
                w.count("scalar_promoted_to_column")
            m.data[col] = list(values)
            w.kinds[tid][col] = ckind
            if isinstance(t._data[m.index], FaultyArray):
                t._data[col] = as_faulty(t._data[col])
        _after_mutation(w, prop, tid, where)
        return "setcol_index" if col == m.index else ("setcol" if existing else "newcol")
    if kind == "vec_cols":
        # a table of its own (it does not join the population) with one vector per row in a float column (shape (n, k)) and
        # in an object column: repetition, sum, concatenation, copy and row selection must give tables whose columns all
        # have len(table) rows, row j of the result being the row of the source it stands for; the source stays as it was
        _, n, num, k, names = op
        idx = np.array(list(names[:n]), dtype=object)
        vec = np.arange(float(n * k)).reshape(n, k)
        pair = np.empty((n, 2), dtype=object)
        for i in range(n):
            pair[i, 0], pair[i, 1] = i, "p%d" % i
        data = {"name": idx, "s": 1.5 * np.arange(n), "vec": vec.copy(), "pair": pair.copy(), "title": "vec"}
        src, exc = call(lambda: w.xd.Table(data, col_names=["name", "s", "vec", "pair"]))
        where = "a table of %d rows with a float column of shape (%d, %d) and an object column of shape (%d, 2)" % (n, n, k, n)
        if exc is not None:
            raise TViolation(prop + ".derive_raises", "%s: the constructor raised %s: %s" % (where, type(exc).__name__, exc))

        def rect(t, what, rows):
            # rows: for every row of the result, the row of the source it repeats
            cols = list(t._col_names)
            if "name" not in cols or any(c not in t._data for c in cols):
                raise TViolation(prop + ".listed_column_missing", "%s: %s lists %s, holds %s" % (where, what, cols, sorted(t._data)))
            if len(t) != len(rows):
                raise TViolation(prop + ".length", "%s: %s has %d rows, expected %d" % (where, what, len(t), len(rows)))
            for c in cols:
                v = t._data[c]
                if len(v) != len(rows):
                    raise TViolation(prop + ".ragged", "%s: %s: column %r has %d rows (shape %s), len(table) is %d"
                                     % (where, what, c, len(v), getattr(v, "shape", None), len(t)))
                for j, i in enumerate(rows):
                    if not np.all(np.asarray(v[j] == data[c][i])):
                        raise TViolation(prop + ".cell", "%s: %s: row %d of column %r is %r, row %d of the source is %r"
                                         % (where, what, j, c, v[j], i, data[c][i]))
            if (".rows[" in what or ".cols[" in what or what.startswith("the source")) and t._data.get("title") != "vec":
                raise TViolation(prop + ".scalars", "%s: %s lost the scalar entry" % (where, what))

        base = list(range(n))
        for what, fn, rows in [("t * %d" % num, lambda: src * num, base * num), ("t + t", lambda: src + src, base * 2),
                               ("Table.concatenate([t, t])", lambda: w.xd.Table.concatenate([src, src]), base * 2),
                               ("t._copy()", lambda: src._copy(), base), ("t.rows[::-1]", lambda: src.rows[::-1], base[::-1]),
                               ("(t * %d).rows[%d:]" % (num, n), lambda: (src * num).rows[n:], base * (num - 1)),
                               ("t.cols['s', 'vec']", lambda: src.cols["s", "vec"], base)]:
            der, exc = call(fn)
            if exc is not None:
                raise TViolation(prop + ".derive_raises", "%s: %s raised %s: %s" % (where, what, type(exc).__name__, exc))
            rect(der, what, rows)
            rect(src, "the source after " + what, base)
        w.count("vector_column_derivations", 7)
        return "vec_cols"
    if kind == "newcol_list":
        # a new column handed over as a plain python list with one entry per row (numbers, strings, or one list per row of
        # different lengths): whether the assignment is accepted or refused, every listed column is held afterwards and the
        # table keeps its shape; the column is then deleted again and the table must be what it was (the model does not follow
        # columns that are python lists)
        _, tid, col, form = op
        t, m = w.real[tid], w.model[tid]
        n = m.n()
        if n < 2 or col in m.cols or col in m.scalars:
            return "skipped"
        if form == "ragged":
            val = [list(range(i % 3)) for i in range(n)]
        elif form == "numbers":
            val = [0.5 * i for i in range(n)]
        else:
            val = ["s%d" % i for i in range(n)]
        where = "table #%d t[%r] = %r (a python list, one entry per row)" % (tid, col, val)
        _v, exc = call(lambda: t.__setitem__(col, val))
        w.check_invariants(prop, tid, where + (" raised %s and" % type(exc).__name__ if exc is not None else ""))
        if exc is None:
            if col not in t._col_names:
                raise TViolation(prop + ".columns", "%s: the column is not listed afterwards" % where)
            w.count("list_column_accepted")
            _v, exc2 = call(lambda: t.__delitem__(col))
            if exc2 is not None:
                raise TViolation(prop + ".setcol_raises", "%s, then del t[%r] raised %s: %s" % (where, col, type(exc2).__name__, exc2))
        else:
            w.count("list_column_refused")
        _after_mutation(w, prop, tid, where + " and del")
        return "newcol_list"
    if kind == "setcol_b":
        # one numpy value (scalar, 0-d array or one-element array, of ANOTHER numeric dtype than the column) assigned to an
        # existing column: it is broadcast to every row, the column keeps its length and dtype
        _, tid, col, value, form = op
        t, m = w.real[tid], w.model[tid]
        kd = w.kinds[tid].get(col)
        if col not in m.cols or kd not in ("f", "i") or m.n() < 2 or col == m.index:
            return "skipped"
        v = np.int64(int(value)) if kd == "f" else np.float64(float(int(value)))
        arr = v if form == "scalar" else (np.array(v) if form == "0d" else np.array([v]))
        where = "table #%d t[%r] = %r (%s)" % (tid, col, arr, form)
        val, exc = call(lambda: t.__setitem__(col, arr))
        if exc is not None:
            raise TViolation(prop + ".setcol_raises", "%s raised %s: %s" % (where, type(exc).__name__, exc))
        m.data[col] = [float(int(value)) if kd == "f" else int(value)] * m.n()
        _after_mutation(w, prop, tid, where)
        return "setcol_broadcast"
    if kind == "show":
        # printing is not a mutation: afterwards the table (column list and order included) is what it was
        _, tid, with_rows = op
        t, m = w.real[tid], w.model[tid]
        if with_rows:
            txt, exc = call(lambda: t.show(rows=slice(None), output=str, maxwidth="full"))
        else:
            txt, exc = call(lambda: t.show(output=str, maxwidth="full"))
        where = "table #%d show(%s)" % (tid, "rows=slice(None)" if with_rows else "")
        if exc is not None:
            raise TViolation(prop + ".show_raises", "%s raised %s: %s" % (where, type(exc).__name__, exc))
        for k in range(len(w.real)):
            if k not in w.tainted:
                w.check_equal(prop, k, where + " (table #%d afterwards)" % k)
        return "show"
    if kind == "labelcol":
        # the table's own row labels stored as a column: t[col] = t.cols.get_index_unique() (the array the API handed out)
        _, tid, col = op
        t, m = w.real[tid], w.model[tid]
        if col in m.cols or col in m.scalars or m.n() == 0:
            return "skipped"
        where = "table #%d t[%r] = t.cols.get_index_unique()" % (tid, col)
        val, exc = call(lambda: t.__setitem__(col, t.cols.get_index_unique()))
        if exc is not None:
            raise TViolation(prop + ".setcol_raises", "%s raised %s: %s" % (where, type(exc).__name__, exc))
        m.cols.append(col)
        m.data[col] = list(m.unique_labels())
        w.kinds[tid][col] = "s"
        if isinstance(t._data[m.index], FaultyArray):
            t._data[col] = as_faulty(t._data[col])
        _after_mutation(w, prop, tid, where)
        return "labelcol"
    if kind == "setslice":
        # several cells of one column at once: t[col, slice] = values, t[col, [positions]] = values, t[col, 'a':'b'] = values
        _, tid, col, sel, values = op
        t, m = w.real[tid], w.model[tid]
        if col not in m.cols:
            return "skipped"
        kd = w.kinds[tid].get(col)
        msel = model_sel(sel)
        try:
            idx = m.select1(msel)
        except Exception:
            return "skipped"
        if len(idx) != len(values) or len(set(idx)) != len(idx) or not idx:
            return "skipped"
        for v in values:
            if (kd == "i" and not (isinstance(v, int) and not isinstance(v, bool))) or (kd == "f" and not isinstance(v, float)) \
                    or (kd in ("s", "o", "u") and not isinstance(v, str)):
                return "skipped"
        arg = np_sel(sel)
        where = "table #%d t[%r, %r] = %r" % (tid, col, arg, list(values))
        val, exc = call(lambda: t.__setitem__((col, arg), list(values) if kd in ("s", "o", "u") else np.array(values)))
        if exc is not None:
            raise TViolation(prop + ".write_raises", "%s raised %s: %s" % (where, type(exc).__name__, exc))
        for i, v in zip(idx, values):
            m.data[col][i] = m.clip(col, v)
        if col == m.index:
            w.taint_sharers(tid)
        _after_mutation(w, prop, tid, where)
        return "setslice_index" if col == m.index else "setslice"
    if kind == "polluter":
        # another table in the same process, built with non-default regular-expression flags, uses the same selector
        # text (unchecked): nothing of it may leak into the tables under test
        _, names, pattern = op
        if not names:
            return "skipped"
        call(lambda: w.xd.Table({"name": np_col("s", list(names)), "v": np_col("f", [float(i) for i in range(len(names))])},
                                index="name", regex_flags=0).rows[pattern])
        return "polluter"
    if kind == "ctor":
        # the checked constructor: must either raise ValueError or return a table that satisfies the invariants
        _, spec, variant = op
        cols = [c[0] for c in spec["cols"]]
        data = {name: np_col(k, vals) for name, k, vals in spec["cols"]}
        for k, v in spec.get("scalars", ()):
            from .world import entry_value
            data[k] = entry_value(v)
        index = spec["index"]
        col_names = list(cols)
        expect_error = False
        if variant == "index_not_listed":
            col_names = [c for c in cols if c != index]            # the index is a key of the data, but not a listed column
            expect_error = True
        elif variant == "index_is_scalar":
            col_names = [c for c in cols if c != index]
            data[index] = "TWISS"
            expect_error = True
        elif variant == "index_absent":
            index = "nosuchcolumn"
            expect_error = True
        elif variant == "ragged" and cols:
            data[cols[-1]] = np.concatenate([data[cols[-1]], data[cols[-1]][:1]]) if len(data[cols[-1]]) else np_col("f", [1.0])
            expect_error = True
        elif variant == "not_array" and cols:
            data[cols[-1]] = list(spec["cols"][-1][2])
            expect_error = True
        if not col_names:
            return "skipped"
        where = "Table(data, col_names=%s, index=%r) [%s]" % (col_names, index, variant)
        val, exc = call(lambda: w.xd.Table(data, col_names=col_names, index=index))
        if exc is None:
            # whatever was accepted must be a well-formed table
            k = w.add_derived(val, MTable(list(val._col_names), {c: [] for c in val._col_names}, val._index, {}), {})
            try:
                w.check_invariants(prop, k, where)
            finally:
                w.pop_last()
            if expect_error:
                raise TViolation(prop + ".ctor_accepts", "%s returned a table although the arguments are inconsistent" % where)
            return "ctor_ok"
        if not expect_error:
            raise TViolation(prop + ".ctor_raises", "%s raised %s: %s for consistent arguments" % (where, type(exc).__name__, exc))
        if not isinstance(exc, ValueError):
            raise TViolation(prop + ".ctor_error_type", "%s raised %s: %s instead of ValueError" % (where, type(exc).__name__, exc))
        return "ctor_rejected"
    if kind == "delcol":
        _, tid, col, how = op
        t, m = w.real[tid], w.model[tid]
        if col not in m.cols or col == m.index or len(m.cols) <= 2 or col == m.cols[0]:
            return "skipped"
        where = "table #%d %s %r" % (tid, "del t[col]" if how == "del" else "t.pop(col)", col)
        if how == "del":
            val, exc = call(lambda: t.__delitem__(col))
        else:
            val, exc = call(lambda: t.pop(col))
        if exc is not None:
            raise TViolation(prop + ".delcol_raises", "%s raised %s: %s" % (where, type(exc).__name__, exc))
        m.cols.remove(col)
        del m.data[col]
        _after_mutation(w, prop, tid, where)
        return "delcol"
    if kind == "reindex":
        # remove the index column and put a new one back (pop/del + assignment), a legal way of replacing it
        _, tid, how, values, style = op
        t, m = w.real[tid], w.model[tid]
        if len(values) != m.n() or m.index != m.cols[-1] and m.cols[0] == m.index and len(m.cols) < 2:
            return "skipped"
        if m.cols[0] == m.index:
            return "skipped"        # len(table) is taken from the first listed column
        where = "table #%d %s(index) then t[index] = new names" % (tid, how)
        arr = np_col("s", values)
        if how == "del":
            val, exc = call(lambda: t.__delitem__(m.index))
        else:
            val, exc = call(lambda: t.pop(m.index))
        if exc is None:
            if style == "item":
                val, exc = call(lambda: t.__setitem__(m.index, arr))
            else:
                val, exc = call(lambda: setattr(t, m.index, arr))
        if exc is not None:
            raise TViolation(prop + ".reindex_raises", "%s raised %s: %s" % (where, type(exc).__name__, exc))
        m.cols.remove(m.index)
        m.cols.append(m.index)
        m.data[m.index] = list(values)
        m.width.pop(m.index, None)          # the new index column is the assigned (object) array
        w.kinds[tid][m.index] = "s"
        _after_mutation(w, prop, tid, where)
        return "reindex"
    # ---------------------------------------------------------------- selection (C08)
    if kind == "sel":
        _, tid, sels, what = op
        t, m = w.real[tid], w.model[tid]
        msel = tuple(model_sel(s) for s in sels)
        try:
            idx = m.select(msel)
            expexc = None
        except Reject:
            return "skipped"
        except (KeyError, IndexError) as e:
            idx, expexc = None, type(e)
        except Exception:
            return "skipped"
        arg = np_sel(sels[0]) if len(sels) == 1 else tuple(np_sel(s) for s in sels)
        where = "table #%d rows%s[%r]" % (tid, "" if what == "rows" else "." + what, arg)
        if what == "rows":
            val, exc = call(lambda: t.rows[arg])
        elif what == "indices":
            val, exc = call(lambda: t.rows.indices[arg])
        else:
            val, exc = call(lambda: t.rows.mask[arg])
        if expexc is not None:
            if exc is None:
                raise TViolation(prop + ".select_no_error", "%s returned a result although the selector names a row that does not exist (index column %s)"
                                 % (where, m.data[m.index]))
            return "sel_error"
        if exc is not None:
            raise TViolation(prop + ".select_raises", "%s raised %s: %s; index column %s, expected rows %s"
                             % (where, type(exc).__name__, exc, m.data[m.index], idx))
        n = m.n()
        if what == "rows":
            got = [py(x) for x in np.asarray(val._data[m.cols[0]]).tolist()]
            cols_ok = list(val._col_names) == m.cols
            exp_tab = m.take_rows(idx)
            if not cols_ok:
                raise TViolation(prop + ".select_columns", "%s has columns %s, expected %s" % (where, val._col_names, m.cols))
            for c in m.cols:
                gv = [py(x) for x in np.asarray(val._data[c]).tolist()]
                if len(gv) != len(exp_tab.data[c]) or any(not cell_same(a, b) for a, b in zip(gv, exp_tab.data[c])):
                    raise TViolation(prop + ".select_rows", "%s: column %r is %s, the selector denotes rows %s i.e. %s (index column %s)"
                                     % (where, c, gv, idx, exp_tab.data[c], m.data[m.index]))
        elif what == "indices":
            got = [int(x) % n if n else int(x) for x in np.atleast_1d(val).tolist()]
            if got != idx:
                raise TViolation(prop + ".select_indices", "%s returned %s, the selector denotes rows %s (index column %s)"
                                 % (where, got, idx, m.data[m.index]))
        else:
            got = [bool(x) for x in np.asarray(val).tolist()]
            exp = [i in set(idx) for i in range(n)]
            if got != exp:
                raise TViolation(prop + ".select_mask", "%s returned %s, the selector denotes rows %s (index column %s)"
                                 % (where, got, idx, m.data[m.index]))
        return "sel_" + what + ("_multi" if len(sels) > 1 else "")
    if kind == "compose":
        _, tid, s1, s2 = op
        t, m = w.real[tid], w.model[tid]
        a1, a2 = np_sel(s1), np_sel(s2)
        try:
            idx = m.select((model_sel(s1), model_sel(s2)))
        except Exception:
            return "skipped"
        where = "table #%d rows[%r, %r] vs rows[%r].rows[%r]" % (tid, a1, a2, a1, a2)
        v1, e1 = call(lambda: t.rows[a1, a2])
        v2, e2 = call(lambda: t.rows[a1].rows[a2])
        if e1 is not None or e2 is not None:
            raise TViolation(prop + ".compose_raises", "%s: %s" % (where, "rows[s1, s2] raised %r" % e1 if e1 is not None else "rows[s1].rows[s2] raised %r" % e2))
        exp_tab = m.take_rows(idx)
        for c in m.cols:
            g1 = [py(x) for x in np.asarray(v1._data[c]).tolist()]
            g2 = [py(x) for x in np.asarray(v2._data[c]).tolist()]
            if len(g1) != len(g2) or any(not cell_same(a, b) for a, b in zip(g1, g2)):
                raise TViolation(prop + ".compose", "%s: column %r is %s in one and %s in the other" % (where, c, g1, g2))
            if len(g1) != len(exp_tab.data[c]) or any(not cell_same(a, b) for a, b in zip(g1, exp_tab.data[c])):
                raise TViolation(prop + ".compose_rows", "%s: column %r is %s, expected %s" % (where, c, g1, exp_tab.data[c]))
        return "compose"
    # ---------------------------------------------------------------- derivations (C14)
    if kind.startswith("d_") or kind == "expr":
        return _derive(w, op, prop)
    raise AssertionError(op)


def _after_mutation(w, prop, tid, where):
    """the mutated table equals its model; every other live table keeps its structure and stays rectangular;
    cell values of other tables may change through shared arrays (views), they are re-read."""
    w.check_equal(prop, tid, where)
    for k in range(len(w.real)):
        if k == tid:
            continue
        w.check_invariants(prop, k, where + " (effect on table #%d)" % k)
        cols = list(w.real[k]._col_names)
        if cols != w.model[k].cols or len(w.real[k]) != w.model[k].n():
            raise TViolation(prop + ".other_table_changed", "%s changed table #%d: columns %s (were %s), length %d (was %d)"
                             % (where, k, cols, w.model[k].cols, len(w.real[k]), w.model[k].n()))
        w.resync_model(k)


def _derive(w, op, prop):
    kind = op[0]
    before = [w.digest_table(k) for k in range(len(w.real))]
    nb = len(w.real)
    order = True
    newm = None
    newkinds = None
    if kind == "d_rows":
        _, tid, sels = op
        t, m = w.real[tid], w.model[tid]
        try:
            idx = m.select(tuple(model_sel(s) for s in sels))
            newm = m.take_rows(idx)
        except Reject:
            return "skipped"
        except Exception:
            newm = None
        arg = np_sel(sels[0]) if len(sels) == 1 else tuple(np_sel(s) for s in sels)
        where = "table #%d rows[%r]" % (tid, arg)
        val, exc = call(lambda: t.rows[arg])
        newkinds = w.kinds[tid]
    elif kind == "d_cols":
        _, tid, names, style = op
        t, m = w.real[tid], w.model[tid]
        texts = []
        values = {}
        ok = True
        for nm in names:
            if isinstance(nm, tuple):
                tx = expr_text(nm)
                if not _numeric_expr(w, tid, nm) or tx in m.cols or tx in m.scalars:
                    return "skipped"
                try:
                    values[tx] = [eval_expr(nm, {c: m.data[c][i] for c in m.cols}) for i in range(m.n())]
                    if m.n() == 0:
                        eval_expr(nm, {c: 1 for c in m.cols})
                except ZeroDivisionError:
                    ok = False
                except (KeyError, TypeError, OverflowError):
                    return "skipped"
                texts.append(tx)
            else:
                if nm not in m.cols:
                    return "skipped"
                texts.append(nm)
        if not ok or len(set(texts)) != len(texts):
            return "skipped"
        newm = m.take_cols(texts, values)
        where = "table #%d cols[%r]" % (tid, texts)
        arg = " ".join(texts) if style == "str" else list(texts)
        if style == "lowlevel":
            # the low-level entry point behind t.cols[...] (examples/table_benchmark.py calls it directly), given a list
            where = "table #%d _select_cols(%r)" % (tid, texts)
            val, exc = call(lambda: t._select_cols(arg))
        else:
            val, exc = call(lambda: t.cols[arg])
        newkinds = dict(w.kinds[tid])
        for tx in values:
            dk = getattr(getattr(val, "_data", {}).get(tx, None), "dtype", None) if exc is None else None
            newkinds[tx] = "i" if (dk is not None and dk.kind in "iu") else "f"
    elif kind == "d_select":
        # the documented low-level entry point: rows (one selector or a chain of selectors) and columns (names and
        # expressions) in one call
        _, tid, sels, names = op
        t, m = w.real[tid], w.model[tid]
        for s_ in sels[1:]:
            if not (isinstance(s_, tuple) and s_ and s_[0] == "slice" and all(x is None or (isinstance(x, int) and not isinstance(x, bool)) for x in s_[1:])):
                return "skipped"        # later selectors of a _select chain: plain position slices only (see the generator)
        try:
            idx = m.select(tuple(model_sel(s) for s in sels))
            sub = m.take_rows(idx)
        except Reject:
            return "skipped"
        except Exception:
            return "skipped"
        texts, values = [], {}
        for nm in names:
            if isinstance(nm, tuple):
                tx = expr_text(nm)
                if not _numeric_expr(w, tid, nm) or tx in m.cols or tx in m.scalars:
                    return "skipped"
                try:
                    values[tx] = [eval_expr(nm, {c: sub.data[c][i] for c in sub.cols}) for i in range(sub.n())]
                    if sub.n() == 0:
                        eval_expr(nm, {c: 1 for c in sub.cols})
                except (ZeroDivisionError, KeyError, TypeError, OverflowError):
                    return "skipped"
                texts.append(tx)
            else:
                if nm not in m.cols:
                    return "skipped"
                texts.append(nm)
        if len(set(texts)) != len(texts) or any(" " in x for x in texts):
            return "skipped"
        allcols = len(names) == 0           # cols=None: every column (what show(rows=...) asks for)
        newm = sub.take_cols(list(m.cols) if allcols else texts, values)
        rows_arg = np_sel(sels[0]) if len(sels) == 1 else tuple(np_sel(s) for s in sels)
        if len(sels) == 1 and isinstance(rows_arg, (list, tuple, np.ndarray)):
            rows_arg = (rows_arg,)          # an iterable first argument is read as a chain of selectors
        cols_arg = None if allcols else " ".join(texts)
        where = "table #%d._select(%r, %r)" % (tid, rows_arg, cols_arg)
        val, exc = call(lambda: t._select(rows_arg, cols_arg))
        newkinds = dict(w.kinds[tid])
        for tx in values:
            dk = getattr(getattr(val, "_data", {}).get(tx, None), "dtype", None) if exc is None else None
            newkinds[tx] = "i" if (dk is not None and dk.kind in "iu") else "f"
    elif kind == "d_add":
        _, t1, t2 = op
        a, b = w.model[t1], w.model[t2]
        if sorted(a.cols) != sorted(b.cols) or any(w.kinds[t1][c] != w.kinds[t2][c] for c in a.cols):
            return "skipped"
        newm = a.concat(b)
        where = "table #%d + table #%d" % (t1, t2)
        val, exc = call(lambda: w.real[t1] + w.real[t2])
        newkinds = w.kinds[t1]
    elif kind == "d_mul":
        _, tid, num = op
        m = w.model[tid]
        newm = m.repeat(num) if num > 0 else None
        where = "table #%d * %d" % (tid, num)
        val, exc = call(lambda: w.real[tid] * num)
        newkinds = w.kinds[tid]
    elif kind == "d_concat":
        _, tids = op
        ms = [w.model[k] for k in tids]
        if any(sorted(x.cols) != sorted(ms[0].cols) for x in ms) or ms[0].index != "name" or \
                any(w.kinds[k][c] != w.kinds[tids[0]][c] for k in tids for c in ms[0].cols):
            return "skipped"
        newm = MTable(ms[0].cols, {c: [v for x in ms for v in x.data[c]] for c in ms[0].cols}, "name", {})
        order = False
        where = "Table.concatenate(%s)" % (list(tids),)
        val, exc = call(lambda: w.xd.Table.concatenate([w.real[k] for k in tids]))
        newkinds = w.kinds[tids[0]]
    elif kind == "d_copy":
        _, tid = op
        newm = w.model[tid].copy()
        where = "table #%d._copy()" % tid
        val, exc = call(lambda: w.real[tid]._copy())
        newkinds = w.kinds[tid]
    elif kind == "d_t":
        _, tid = op
        m = w.model[tid]
        t = w.real[tid]
        cols = ["columns"] + ["row%d" % i for i in range(m.n())]
        data = {"columns": list(m.cols)}
        for i in range(m.n()):
            data["row%d" % i] = [str(t._data[c][i]) for c in m.cols]
        newm = MTable(cols, data, "columns", {})
        where = "table #%d._t" % tid
        val, exc = call(lambda: t._t)
        newkinds = {c: "s" for c in cols}
    elif kind == "expr":
        _, tid, ast, via = op
        t, m = w.real[tid], w.model[tid]
        tx = expr_text(ast)
        if not _numeric_expr(w, tid, ast) or tx in m.cols or tx in m.scalars:
            return "skipped"            # a column that is NAMED like the expression is returned as it is (by design)
        try:
            exp = [eval_expr(ast, {c: m.data[c][i] for c in m.cols}) for i in range(m.n())]
            if m.n() == 0:
                eval_expr(ast, {c: 1 for c in m.cols})      # a constant sub-expression may divide by zero even without rows
        except (ZeroDivisionError, KeyError, TypeError, OverflowError):
            return "skipped"
        where = "table #%d %s" % (tid, "t[%r]" % tx if via == "item" else "t.cols[%r]" % tx)
        if via == "item":
            val, exc = call(lambda: t[tx])
            if exc is not None:
                raise TViolation(prop + ".expr_raises", "%s raised %s: %s" % (where, type(exc).__name__, exc))
            got = [py(x) for x in np.asarray(val).tolist()] if m.n() or hasattr(val, "__len__") else []
        else:
            val, exc = call(lambda: t.cols[tx])
            if exc is not None:
                raise TViolation(prop + ".expr_raises", "%s raised %s: %s" % (where, type(exc).__name__, exc))
            got = [py(x) for x in np.asarray(val._data[tx]).tolist()]
        if len(got) != len(exp) or any(not _num_same(a, b) for a, b in zip(got, exp)):
            raise TViolation(prop + ".expr_value", "%s is %s, element-wise evaluation gives %s" % (where, got, exp))
        _sources_untouched(w, prop, before, nb, where)
        return "expr"
    else:
        raise AssertionError(op)
    # ---- common part of derivations -----------------------------------------------------------
    if newm is None:
        # a derivation the model says must fail (bad selector, * 0): whatever happens, sources stay as they are
        _sources_untouched(w, prop, before, nb, where + " (rejected)")
        w.count("rejected_derivations")
        return "derive_rejected"
    if exc is not None:
        raise TViolation(prop + ".derive_raises", "%s raised %s: %s" % (where, type(exc).__name__, exc))
    share = op[1] if kind in ("d_rows", "d_cols", "d_copy", "d_select") else None     # these may return views / the same arrays
    k = w.add_derived(val, newm, newkinds, share_with=share)
    try:
        w.check_equal(prop, k, where, order=order)
        _sources_untouched(w, prop, before, nb, where)
    finally:
        keep = kind in ("d_rows", "d_cols", "d_add", "d_mul", "d_copy", "d_select") and nb < MAX_LIVE
        if not keep:
            w.pop_last()
    return kind


def _expr_cols(ast, out=None):
    out = [] if out is None else out
    if ast[0] == "col":
        out.append(ast[1])
    elif ast[0] in ("neg", "abs"):
        _expr_cols(ast[1], out)
    elif ast[0] == "bin":
        _expr_cols(ast[2], out)
        _expr_cols(ast[3], out)
    return out


def _numeric_expr(w, tid, ast):
    m = w.model[tid]
    return all(c in m.cols and c.isidentifier() and w.kinds[tid].get(c) in ("f", "i") for c in _expr_cols(ast))


def _num_same(a, b):
    if isinstance(a, float) or isinstance(b, float):
        return float(a) == float(b) or (a != a and b != b)
    return a == b


def _sources_untouched(w, prop, before, nb, where):
    for k in range(nb):
        w.check_invariants(prop, k, where + " (effect on table #%d)" % k)
        if w.digest_table(k) != before[k]:
            raise TViolation(prop + ".source_changed", "%s changed table #%d (length, column list or cell values)" % (where, k))
