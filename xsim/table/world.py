"""Real side of table-sim: builds xdeps Tables, interprets abstract ops, compares with the model."""
import numpy as np

from ..common import same
from ..containers import InjectedFault
from .model import MTable, Reject, eval_expr, expr_text


class TViolation(Exception):
    def __init__(self, cls, msg, **attrs):
        Exception.__init__(self, "%s: %s" % (cls, msg))
        self.cls, self.msg, self.attrs = cls, msg, attrs

    def to_json(self):
        return {"cls": self.cls, "msg": self.msg[:2000], "attrs": self.attrs}


# ---- fault-injecting column storage (seam S4) -----------------------------------------
class _Plan:
    countdown = None      # number of element writes still allowed, or None (no fault armed)
    fired = 0


class FaultyArray(np.ndarray):
    """np.ndarray whose element writes can be made to fail after k elements (a write of a whole
    slice is torn: the first k elements are written, then InjectedFault is raised)."""

    def __setitem__(self, key, value):
        if _Plan.countdown is None:
            return np.ndarray.__setitem__(self, key, value)
        base = self.view(np.ndarray)
        idx = np.arange(len(base))[key]
        if np.ndim(idx) == 0:
            if _Plan.countdown <= 0:
                _Plan.countdown = None
                _Plan.fired += 1
                raise InjectedFault("array write")
            _Plan.countdown -= 1
            base[key] = value
            return
        idx = np.atleast_1d(idx)
        vals = np.broadcast_to(np.asarray(value, dtype=object) if base.dtype == object else np.asarray(value), idx.shape)
        for j, i in enumerate(idx):
            if _Plan.countdown <= 0:
                _Plan.countdown = None
                _Plan.fired += 1
                raise InjectedFault("array write torn after %d elements" % j)
            _Plan.countdown -= 1
            base[i] = vals[j]


def as_faulty(arr):
    return arr.view(FaultyArray)


def py(v):
    """numpy scalar -> python value"""
    if isinstance(v, np.generic):
        return v.item()
    return v


def np_col(kind, values, faulty=False):
    if kind == "u":
        # fixed-width numpy string column (Table(..., cast_strings=False) keeps it)
        a = np.array([str(v) for v in values], dtype="U%d" % max([1] + [len(str(v)) for v in values]))
        return as_faulty(a) if faulty else a
    if kind == "f":
        a = np.array(values, dtype=float)
    elif kind == "i":
        a = np.array(values, dtype=np.int64)
    else:
        a = np.empty(len(values), dtype=object)
        for i, v in enumerate(values):
            a[i] = v
    return as_faulty(a) if faulty else a


def np_sel(sel):
    """abstract selector (JSON-able) -> what is passed to rows[...]"""
    if isinstance(sel, tuple) and sel and sel[0] == "slice":
        return slice(sel[1], sel[2], sel[3])
    if isinstance(sel, tuple) and sel and sel[0] == "list":
        return list(sel[1])
    if isinstance(sel, tuple) and sel and sel[0] == "array":
        return np.array(list(sel[1]))
    if isinstance(sel, tuple) and sel and sel[0] == "tup":
        return tuple(sel[1])
    return sel


def model_sel(sel):
    if isinstance(sel, tuple) and sel and sel[0] == "slice":
        return slice(sel[1], sel[2], sel[3])
    if isinstance(sel, tuple) and sel and sel[0] in ("list", "array"):
        return list(sel[1])
    if isinstance(sel, tuple) and sel and sel[0] == "tup":
        return tuple(sel[1])
    return sel


def np_row(row):
    if isinstance(row, tuple) and row and row[0] == "tup":
        return tuple(row[1])
    return row


class TWorld:
    def __init__(self, xd, tables, faulty=False):
        self.xd = xd
        self.real = []
        self.model = []
        self.kinds = []       # per table: dict col -> kind
        self.group = []       # per table: storage-sharing group (derived tables may share arrays with their source)
        self.tainted = set()  # tables whose index column was changed in place through ANOTHER table sharing its arrays
        self._ngroup = 0
        self.stats = {}
        for spec in tables:
            self.add_source(spec, faulty)

    def count(self, k, n=1):
        self.stats[k] = self.stats.get(k, 0) + n

    def add_source(self, spec, faulty=False):
        cols = [c[0] for c in spec["cols"]]
        data = {}
        kinds = {}
        for name, kind, values in spec["cols"]:
            data[name] = np_col(kind, values, faulty)
            kinds[name] = kind
        for k, v in spec.get("scalars", ()):
            data[k] = entry_value(v)
        if spec.get("fixed_width"):
            t = self.xd.Table(data, col_names=cols, index=spec["index"], cast_strings=False)
        else:
            t = self.xd.Table(data, col_names=cols, index=spec["index"])
        if faulty:
            # the checked constructor copies string columns; keep the fault-injecting storage
            for name in cols:
                if not isinstance(t._data[name], FaultyArray):
                    t._data[name] = as_faulty(t._data[name])
        m = MTable(cols, {c[0]: list(c[2]) for c in spec["cols"]}, spec["index"], {k: entry_value(v) for k, v in spec.get("scalars", ())})
        m.width = {c[0]: max([1] + [len(str(v)) for v in c[2]]) for c in spec["cols"] if c[1] == "u"}
        self.real.append(t)
        self.model.append(m)
        self.kinds.append(kinds)
        self._ngroup += 1
        self.group.append(self._ngroup)
        return len(self.real) - 1

    def add_derived(self, t, m, kinds, share_with=None):
        self.real.append(t)
        self.model.append(m)
        self.kinds.append(dict(kinds))
        if share_with is None:
            self._ngroup += 1
            self.group.append(self._ngroup)
        else:
            self.group.append(self.group[share_with])
        return len(self.real) - 1

    def pop_last(self):
        self.real.pop()
        self.model.pop()
        self.kinds.pop()
        self.group.pop()

    def taint_sharers(self, tid):
        """the index column of table tid was written in place: every OTHER table that may share that array now has
        an index column changed behind its back (excluded by the properties)"""
        for k in range(len(self.real)):
            if k != tid and self.group[k] == self.group[tid]:
                self.tainted.add(k)

    # ---- observation ----------------------------------------------------------------
    def raw(self, tid):
        """(col_names, {col: python list}, scalars) read directly from the real table"""
        t = self.real[tid]
        cols = list(t._col_names)
        data = {}
        for c in cols:
            data[c] = [py(x) for x in np.asarray(t._data[c]).tolist()] if c in t._data else None
        scal = {}
        for k in t._data.keys():
            if k not in cols:
                scal[k] = t._data[k]
        return cols, data, scal

    def check_invariants(self, prop, tid, where):
        """C14: rectangular, listed columns present, index among the columns"""
        t = self.real[tid]
        cols = list(t._col_names)
        missing = [c for c in cols if c not in t._data]
        if missing:
            raise TViolation(prop + ".listed_column_missing", "%s: table #%d lists column %r but holds no such data" % (where, tid, missing[0]))
        if len(set(cols)) != len(cols):
            raise TViolation(prop + ".duplicate_column", "%s: table #%d lists a column twice: %s" % (where, tid, cols))
        try:
            n = len(t)
        except Exception as e:
            raise TViolation(prop + ".ragged", "%s: table #%d: len(table) raises %s: %s" % (where, tid, type(e).__name__, e))
        for c in cols:
            v = t._data[c]
            if not hasattr(v, "__len__") or getattr(v, "shape", (0,)) == ():
                raise TViolation(prop + ".ragged", "%s: table #%d: column %r is not a sequence of rows but %r" % (where, tid, c, v))
            ln = len(v)
            if ln != n:
                raise TViolation(prop + ".ragged", "%s: table #%d: column %r has length %d, len(table) is %d" % (where, tid, c, ln, n))
        if t._index is not None and t._index not in cols:
            raise TViolation(prop + ".index_missing", "%s: table #%d: index column %r is not among its columns %s" % (where, tid, t._index, cols))

    def check_equal(self, prop, tid, where, order=True):
        """the real table equals the model table (columns, order, length, cells, scalars)"""
        self.check_invariants(prop, tid, where)
        m = self.model[tid]
        cols, data, scal = self.raw(tid)
        if (cols != m.cols) if order else (sorted(cols) != sorted(m.cols)):
            raise TViolation(prop + ".columns", "%s: table #%d has columns %s, expected %s" % (where, tid, cols, m.cols))
        for c in m.cols:
            if len(data[c]) != len(m.data[c]):
                raise TViolation(prop + ".length", "%s: table #%d column %r has %d rows, expected %d" % (where, tid, c, len(data[c]), len(m.data[c])))
            for i, (a, b) in enumerate(zip(data[c], m.data[c])):
                if not cell_same(a, b):
                    raise TViolation(prop + ".cell", "%s: table #%d [%r, %d] holds %r, expected %r" % (where, tid, c, i, a, b))
        if set(scal) != set(m.scalars):
            raise TViolation(prop + ".scalars", "%s: table #%d carries scalar entries %s, expected %s" % (where, tid, sorted(scal), sorted(m.scalars)))
        for k, v in m.scalars.items():
            if not entry_same(py(scal[k]), v):
                raise TViolation(prop + ".scalar_value", "%s: table #%d scalar %r is %r, expected %r" % (where, tid, k, scal[k], v))
        t = self.real[tid]
        if t._index != m.index:
            raise TViolation(prop + ".index_name", "%s: table #%d index is %r, expected %r" % (where, tid, t._index, m.index))

    def digest_table(self, tid):
        cols, data, scal = self.raw(tid)
        return (tuple(cols), tuple((c, tuple(repr(x) for x in (data[c] or ()))) for c in cols),
                tuple(sorted((k, repr(v) if not isinstance(v, np.ndarray) else repr(v.tolist())) for k, v in scal.items())),
                len(self.real[tid]) if cols else 0)

    def resync_model(self, tid):
        """adopt the real cell values (after an aliasing mutation elsewhere or a torn write); structure is not adopted"""
        cols, data, scal = self.raw(tid)
        m = self.model[tid]
        for c in m.cols:
            if c in data and data[c] is not None and len(data[c]) == len(m.data[c]):
                m.data[c] = list(data[c])


def entry_value(v):
    """non-column entries of a table: ('tuple', [..]) / ('list', [..]) / ('array', [..]) / ('none',) markers or plain scalars"""
    if isinstance(v, (tuple, list)) and v and v[0] in ("tuple", "list", "array", "none", "dict"):
        if v[0] == "tuple":
            return tuple(v[1])
        if v[0] == "list":
            return list(v[1])
        if v[0] == "array":
            return np.array(v[1], dtype=float)
        if v[0] == "dict":
            return {"k": v[1]}
        return None
    return v


def entry_same(a, b):
    if isinstance(a, np.ndarray) or isinstance(b, np.ndarray):
        return isinstance(a, np.ndarray) and isinstance(b, np.ndarray) and a.shape == b.shape and bool(np.all(a == b))
    if type(a) is not type(b):
        return False
    return a == b


def cell_same(a, b):
    if isinstance(a, float) and isinstance(b, float):
        return a == b or (a != a and b != b)
    if isinstance(a, bool) != isinstance(b, bool):
        return False
    if isinstance(a, (int, float)) and isinstance(b, (int, float)) and not isinstance(a, bool):
        return type(a) is type(b) and a == b
    return type(a) is type(b) and a == b


def call(fn):
    """run fn(); returns (value, exception)"""
    try:
        return fn(), None
    except BaseException as e:  # noqa
        if isinstance(e, (KeyboardInterrupt, SystemExit)):
            raise
        from ..containers import SimStall
        if isinstance(e, SimStall):
            raise
        return None, e
