"""Naive reference table (DESIGN 3.5): columns as Python lists, name resolution and row
selection by linear scan.  Independent of xdeps.table; everything it implements is what the
class docstring of xdeps.Table and properties C07 / C08 / C14 state.
"""
import re

SEP_COUNT = "::"
SEP_PREV = "<<"
SEP_NEXT = ">>"


class Reject(Exception):
    """the op is not applicable to the model state / outside the stated domain"""


def parse_row_string(s):
    """'name::count<<offset' / 'name::count>>offset' -> (name, count or None, offset)"""
    count = None
    offset = 0
    if SEP_PREV in s:
        s, o = s.split(SEP_PREV, 1)
        offset -= int(o)
    elif SEP_NEXT in s:
        s, o = s.split(SEP_NEXT, 1)
        offset += int(o)
    if SEP_COUNT in s:
        s, c = s.split(SEP_COUNT, 1)
        count = int(c)
    return s, count, offset


class MTable:
    def __init__(self, cols, data, index, scalars=None):
        self.cols = list(cols)
        self.data = {k: list(data[k]) for k in self.cols}
        self.index = index
        self.scalars = dict(scalars or {})
        self.width = {}        # fixed-width string columns: name -> number of characters kept on assignment

    def copy(self):
        m = MTable(self.cols, self.data, self.index, self.scalars)
        m.width = dict(self.width)
        return m

    def clip(self, col, v):
        w = self.width.get(col)
        return v[:w] if (w is not None and isinstance(v, str)) else v

    def n(self):
        return len(self.data[self.cols[0]])

    # ---- name resolution (C07) -------------------------------------------------
    def occurrences(self, name):
        return [i for i, v in enumerate(self.data[self.index]) if v == name]

    def nth(self, name, count):
        """position of the count-th occurrence (negative from the last) or KeyError"""
        occ = self.occurrences(name)
        if count is None:
            count = 0
        if count < 0:
            count += len(occ)
        if not (0 <= count < len(occ)):
            raise KeyError(name)
        return occ[count]

    def resolve(self, row):
        """row: int | 'name[::count][<<k|>>k]' | (name, count[, offset]) -> position (KeyError if absent)"""
        if isinstance(row, bool):
            raise Reject("bool row")
        if isinstance(row, int):
            return row
        if isinstance(row, str):
            name, count, offset = parse_row_string(row)
        elif isinstance(row, tuple):
            name = row[0]
            count = row[1] if len(row) > 1 else 0
            offset = row[2] if len(row) > 2 else 0
        else:
            raise Reject("row form")
        return self.nth(name, count) + offset

    def unique_labels(self):
        names = self.data[self.index]
        tot = {}
        for v in names:
            tot[v] = tot.get(v, 0) + 1
        seen = {}
        out = []
        for v in names:
            k = seen.get(v, 0)
            seen[v] = k + 1
            out.append(v if tot[v] == 1 else "%s%s%d" % (v, SEP_COUNT, k))
        return out

    # ---- row selection (C08) -----------------------------------------------------
    def select1(self, sel):
        """indices (list, in the order the selector denotes) of ONE selector on this table"""
        n = self.n()
        if sel is None:
            return list(range(n))
        if isinstance(sel, bool):
            raise Reject("bool selector")
        if isinstance(sel, int):
            if not (-n <= sel < n):
                raise Reject("position outside the table (not specified)")
            return [sel % n]
        if isinstance(sel, str):
            name, count, offset = parse_row_string(sel)
            rx = re.compile(name, flags=re.IGNORECASE)
            names = self.data[self.index]
            if count is None:
                idx = [i for i, v in enumerate(names) if rx.fullmatch(v)]
            else:
                idx = []
                seen = []
                for v in names:
                    if v not in seen and rx.fullmatch(v):
                        seen.append(v)
                for v in seen:
                    try:
                        idx.append(self.nth(v, count))
                    except KeyError:
                        pass
                idx.sort()
            out = [i + offset for i in idx]
            for i in out:
                if not (0 <= i < n):
                    raise Reject("offset leaves the table")
            return out
        if isinstance(sel, slice):
            a, b, c = sel.start, sel.stop, sel.step
            if isinstance(a, str) or isinstance(b, str):
                if not (c is None or c == self.index):
                    raise Reject("name span on another column")
                ia = self.resolve(a) if a is not None else None
                ib = self.resolve(b) + 1 if b is not None else None
                for i in (ia, ib):
                    if i is not None and not (0 <= i <= n):
                        raise Reject("offset leaves the table")
                return list(range(n))[slice(ia, ib)]
            if isinstance(c, str):
                if c not in self.data:
                    # not a column of THIS table (e.g. a scalar entry that is a column only in a sibling table): what a value
                    # range over it means is not specified
                    raise Reject("value range over something that is not a column")
                col = self.data[c]
                return [i for i, v in enumerate(col) if (a is None or v >= a) and (b is None or v <= b)]
            return list(range(n))[sel]
        if isinstance(sel, (list, tuple)) and not isinstance(sel, tuple):
            if len(sel) == 0:
                return []
            if all(isinstance(x, bool) for x in sel):
                if len(sel) != n:
                    raise Reject("mask length")
                return [i for i, x in enumerate(sel) if x]
            out = []
            for x in sel:
                if isinstance(x, bool):
                    raise Reject("mixed list")
                if isinstance(x, int):
                    if not (-n <= x < n):
                        raise Reject("position outside the table (not specified)")
                    out.append(x % n)
                elif isinstance(x, str):
                    i = self.resolve(x)
                    if not (0 <= i < n):
                        raise Reject("offset leaves the table")
                    out.append(i)
                else:
                    raise Reject("list element")
            return out
        raise Reject("selector form")

    def select(self, sels):
        """composition of selectors (tuple) -> absolute indices"""
        if not isinstance(sels, tuple):
            sels = (sels,)
        cur = list(range(self.n()))
        for s in sels:
            sub = self.take_rows(cur)
            idx = sub.select1(s)
            cur = [cur[i] for i in idx]
        return cur

    # ---- derivations (C14) ---------------------------------------------------------
    def take_rows(self, idx):
        m = MTable(self.cols, {k: [self.data[k][i] for i in idx] for k in self.cols}, self.index, self.scalars)
        m.width = dict(self.width)
        return m

    def take_cols(self, names, values=None):
        """names may contain expressions; values: dict name -> list for expression columns"""
        cols = list(names)
        if self.index is not None and self.index not in cols:
            cols.insert(0, self.index)
        data = {}
        for c in cols:
            data[c] = list(self.data[c]) if c in self.data else list(values[c])
        return MTable(cols, data, self.index, self.scalars)

    def concat(self, other):
        return MTable(self.cols, {k: self.data[k] + list(other.data[k]) for k in self.cols}, self.index, self.scalars)

    def repeat(self, num):
        return MTable(self.cols, {k: self.data[k] * num for k in self.cols}, self.index, self.scalars)


# ---- column expressions ---------------------------------------------------------------
def eval_expr(ast, row):
    """('col', name) | ('num', v) | ('bin', op, a, b) | ('neg', a) | ('abs', a) on one row (dict name -> value)"""
    t = ast[0]
    if t == "col":
        return row[ast[1]]
    if t == "num":
        return ast[1]
    if t == "neg":
        return -eval_expr(ast[1], row)
    if t == "abs":
        return abs(eval_expr(ast[1], row))
    a, b = eval_expr(ast[2], row), eval_expr(ast[3], row)
    o = ast[1]
    if o == "+":
        return a + b
    if o == "-":
        return a - b
    if o == "*":
        return a * b
    if o == "/":
        return a / b
    raise AssertionError(ast)


def expr_text(ast):
    t = ast[0]
    if t == "col":
        return ast[1]
    if t == "num":
        return repr(ast[1])
    if t == "neg":
        return "-(%s)" % expr_text(ast[1])
    if t == "abs":
        return "abs(%s)" % expr_text(ast[1])
    return "(%s%s%s)" % (expr_text(ast[2]), ast[1], expr_text(ast[3]))
