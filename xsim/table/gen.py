"""Seeded generation of tables and op histories for table-sim (pure: no xdeps, no hashing)."""
from .model import MTable, Reject, expr_text, eval_expr

# alphabets whose names are case variants of each other or contain regex metacharacters: a string selector is a
# case-insensitive full-match regular expression, so 'a' also selects 'A' and 'q.1' also selects 'qx1'.  With
# '::count' the code resolves a literal hit first and the documentation does not say which reading wins, so
# no '::count' regex selector is generated over these.
MIXED_ALPHABETS = [
    ["a", "A", "b", "ab"],
    ["q.1", "qx1", "q11", "q"],
    ["mq", "MQ", "Mq", "d"],
]
# names that contain ONE of the characters the separators are made of (':' '<' '>'), as in MAD-X style "mq:1"
SEPCHAR_ALPHABETS = [
    ["mq:1", "mq:2", "d", "mq"],
    ["b<1", "b>x", "b", "c:d"],
]
ALPHABETS = [
    ["a", "b", "ab"],
    ["ip", "mq", "mqx", "d"],
    ["x1", "x2", "y1", "y"],
    ["q", "qq", "qqq"],
    ["s", "e", "se", "es", "ses"],
]
FLOATS = [0.0, 0.5, -1.5, 2.0, 3.25, -2.0, 1.0, 7.5, -0.25, 10.0]


def re_escape(x):
    import re
    return re.escape(x)


def gen_table(rng, cfg, alpha, with_scalars=True):
    n = rng.choice(cfg["sizes"])
    names = [rng.choice(alpha) for _ in range(n)]
    cols = []
    order = rng.random()
    ncol = rng.randint(1, 3)
    others = []
    # column names that are also names of functions in the namespace column expressions are evaluated in
    pool = ["x", "y", "z"] if rng.random() < 0.75 else rng.sample(["sign", "log", "mod", "power", "angle", "real"], 3)
    idx = cfg.get("index_name", "name")
    if cfg.get("substr_cols"):
        # a column whose name contains the name of the index column
        pool[rng.randrange(3)] = {"name": "parent_name", "elem": "elem2", "s": "bets", "key": "keys", "n": "n1"}[idx]
    if idx != "name" and cfg.get("name_col"):
        # an ordinary column that happens to be called like the default index column
        pool[rng.randrange(3)] = "name"
    for j in range(ncol):
        kind = rng.choice(["f", "f", "i", "s"])
        cname = pool[j]
        if kind == "f":
            vals = [rng.choice(FLOATS) if rng.random() < 0.5 else float(i) for i in range(n)]
            if rng.random() < 0.4:
                vals = sorted(vals)
        elif kind == "i":
            vals = [rng.randint(-3, 6) for _ in range(n)]
        else:
            vals = [rng.choice(["u", "v", "w"] if cname != "name" else alpha) for _ in range(n)]
        others.append((cname, kind, vals))
    if cfg.get("index_first", True) and order < 0.8:
        cols = [(idx, "s", names)] + others
    else:
        cols = others + [(idx, "s", names)]
    scal = []
    if with_scalars and rng.random() < 0.5:
        scal.append(("energy", 6.5))
        if rng.random() < 0.5:
            scal.append(("label", "seq1"))
        if rng.random() < 0.5:
            # non-column entries need not be numbers or strings
            extra = rng.choice([("tuple", [1, 2]), ("none",), ("list", [1.5, 2.5]), ("array", [float(i) for i in range(n + 3)]), ("dict", 1)])
            scal.append(("meta", extra))
    out = {"cols": cols, "index": idx, "scalars": scal}
    if cfg.get("fixed_width") and n > 0:
        # the index column keeps a fixed-width numpy string dtype (Table(..., cast_strings=False))
        out["cols"] = [(c[0], "u" if c[0] == idx else c[1], c[2]) for c in cols]
        out["fixed_width"] = True
    return out


class TGen:
    def __init__(self, rng, cfg, tables):
        self.rng, self.cfg = rng, cfg
        self.alpha = cfg["alphabet"]
        self.mixed = cfg["alphabet"] in MIXED_ALPHABETS
        self.sepchars = cfg["alphabet"] in SEPCHAR_ALPHABETS
        self.models = [MTable([c[0] for c in t["cols"]], {c[0]: c[2] for c in t["cols"]}, t["index"], dict(t["scalars"])) for t in tables]
        self.kinds = [{c[0]: c[1] for c in t["cols"]} for t in tables]
        self.newcol = 0

    # ---- pieces ---------------------------------------------------------------------
    def name_maybe_absent(self):
        rng = self.rng
        return rng.choice(self.alpha) if rng.random() < 0.85 else rng.choice(["zz", "nope", "a0"])

    def row_form(self, m):
        """a row designator: int | name | name::k | name<<k / >>k | tuple forms"""
        rng = self.rng
        n = m.n()
        r = rng.random()
        if r < 0.12 and n:
            return rng.randrange(n) if rng.random() < 0.7 else -rng.randint(1, n)
        name = self.name_maybe_absent()
        occ = len(m.occurrences(name))
        cnt = rng.choice([0, 1, 2, -1, -2, occ - 1, occ, -occ, -occ - 1])
        off = rng.choice([0, 0, 1, -1, 2])
        r = rng.random()
        if r < 0.25:
            return name
        if r < 0.45:
            return "%s::%d" % (name, cnt)
        if r < 0.6:
            s = name if rng.random() < 0.5 else "%s::%d" % (name, cnt)
            return s + ("<<%d" % off if rng.random() < 0.5 else ">>%d" % off)
        if r < 0.8:
            return ("tup", (name, cnt))
        return ("tup", (name, cnt, off))

    def pattern(self):
        rng = self.rng
        a = self.alpha
        k = rng.random()
        x = rng.choice(a)
        if k < 0.25:
            return x if not self.sepchars else re_escape(x).replace("\\:", ":").replace("\\<", "<").replace("\\>", ">")
        if k < 0.4:
            return x[0] + ".*"
        if k < 0.5:
            return ".*" + x[-1]
        if k < 0.6:
            return "%s|%s" % (x, rng.choice(a))
        if k < 0.7:
            return x.upper()
        if k < 0.8:
            return "[%s%s].*" % (a[0][0], a[-1][0])
        if k < 0.86:
            return ".*"
        if k < 0.93:
            return "(?:%s|%s)" % (re_escape(x), re_escape(rng.choice(a)))     # groups spelled with ':' '<' '>' are regular expressions too
        if k < 0.96:
            return "(?i:%s)" % re_escape(x)
        if k < 0.98:
            return "(?P<n>%s).*" % re_escape(x[0])
        return "(%s)?%s" % (re_escape(a[0]), re_escape(a[1 % len(a)]))

    def selector(self, m):
        rng = self.rng
        n = m.n()
        k = rng.random()
        if k < 0.3:
            p = self.pattern()
            r = rng.random()
            if r < 0.45 and not self.mixed:
                p += "::%d" % rng.choice([0, 1, -1, 2, -2])
            r = rng.random()
            if r < 0.15:
                p += "<<%d" % rng.choice([0, 1])
            elif r < 0.3:
                p += ">>%d" % rng.choice([0, 1])
            return p
        if k < 0.38 and n:
            p = rng.randrange(n)
            return p - n if rng.random() < 0.3 else p           # the same row counted from the end
        if k < 0.48:
            neg = rng.random() < 0.4
            return ("list", tuple((lambda p: p - n if neg and rng.random() < 0.5 else p)(rng.randrange(n)) for _ in range(rng.randint(0, 4))) if n else ())
        if k < 0.56:
            return ("list" if rng.random() < 0.5 else "array", tuple(rng.random() < 0.5 for _ in range(n)))
        if k < 0.62:
            lst = []
            for _ in range(rng.randint(1, 3)):
                rf = self.row_form(m)
                if isinstance(rf, str):
                    lst.append(rf)
            return ("list", tuple(lst)) if lst else None
        if k < 0.74:
            a = self.row_form(m) if rng.random() < 0.8 else None
            b = self.row_form(m) if rng.random() < 0.8 else None
            a = a if isinstance(a, str) else None
            b = b if isinstance(b, str) else None
            if a is None and b is None:
                return ("slice", None, None, None)
            return ("slice", a, b, None if rng.random() < 0.7 else m.index)
        if k < 0.9:
            num = [c for c in m.cols if c.isidentifier() and self_kind(self, m, c) in ("f", "i")]
            if not num:
                return None
            c = rng.choice(num)
            lo = rng.choice([None, 0, 0.0, 0.5, -1.5, 2.0, 1, -2])
            hi = rng.choice([None, 0, 0.0, 2.0, 3.25, 7.5, 4, 1])
            return ("slice", lo, hi, c)
        if k < 0.97:
            return ("slice", rng.choice([None, 0, 1, 2]), rng.choice([None, 1, 3, -1]), rng.choice([None, None, 2, -1]))
        return None

    def expr(self, m, depth=2):
        rng = self.rng
        num = [c for c in m.cols if c.isidentifier() and self_kind(self, m, c) in ("f", "i")]
        if not num:
            return None

        def g(d):
            if d <= 0 or rng.random() < 0.3:
                return ("col", rng.choice(num)) if rng.random() < 0.75 else ("num", rng.choice([2, 0.5, 3, 1.5, -1]))
            k = rng.random()
            if k < 0.1:
                return ("neg", g(d - 1))
            if k < 0.2:
                return ("abs", g(d - 1))
            return ("bin", rng.choice(["+", "-", "*", "*", "/"]), g(d - 1), g(d - 1))
        e = ("bin", rng.choice(["+", "*", "-"]), ("col", rng.choice(num)), g(depth - 1))
        return e

    # ---- one op ------------------------------------------------------------------------
    def propose(self):
        rng = self.rng
        w = self.cfg["weights"]
        kinds = [k for k in w if w[k] > 0]
        tot = sum(w[k] for k in kinds)
        x = rng.random() * tot
        kind = kinds[-1]
        for k in kinds:
            x -= w[k]
            if x <= 0:
                kind = k
                break
        tid = rng.randrange(len(self.models))
        m = self.models[tid]
        kd = self.kinds[tid]
        n = m.n()
        if kind == "warm":
            return ("warm", tid)
        if kind == "get":
            return ("get", tid, rng.choice(m.cols), self.row_form(m), rng.choice(["item", "item", "get_index", "floordiv"]))
        if kind == "labels":
            return ("labels", tid)
        if kind == "setcell":
            col = m.index if rng.random() < 0.55 else rng.choice(m.cols)
            k = kd[col]
            val = self.name_maybe_absent() if col == m.index else (rng.choice(FLOATS) if k == "f" else rng.randint(-3, 6) if k == "i" else rng.choice(["u", "v", "w"]))
            if col == m.index and rng.random() < 0.2:
                val = rng.choice(self.alpha)
            fk = rng.choice([0, 0, 1]) if (self.cfg.get("faults") and rng.random() < 0.25) else None
            return ("setcell", tid, col, self.row_form(m), val, fk)
        if kind == "setslice":
            col = m.index if rng.random() < 0.7 else rng.choice(m.cols)
            k = kd[col]
            r = rng.random()
            if r < 0.4 and n:
                a, b = sorted([rng.randrange(n + 1), rng.randrange(n + 1)])
                sel = ("slice", a if rng.random() < 0.8 else None, b if rng.random() < 0.8 else None, None)
            elif r < 0.7 and n:
                sel = ("list", tuple(rng.sample(range(n), rng.randint(1, min(3, n)))))
            else:
                a = self.row_form(m)
                b = self.row_form(m)
                sel = ("slice", a if isinstance(a, str) else None, b if isinstance(b, str) else None, None)
            try:
                from .world import model_sel
                cnt = len(m.select1(model_sel(sel)))
            except Exception:
                return None
            vals = tuple((rng.choice(self.alpha) if col == m.index else (rng.choice(FLOATS) if k == "f" else rng.randint(-3, 6) if k == "i" else rng.choice(["u", "v", "w"]))) for _ in range(cnt))
            return ("setslice", tid, col, sel, vals)
        if kind == "polluter":
            return ("polluter", tuple(rng.choice(self.alpha).upper() if rng.random() < 0.5 else rng.choice(self.alpha) for _ in range(4)), self.pattern())
        if kind == "d_select":
            ns = rng.choice([1, 2, 2, 3])
            # _select resolves every selector of a chain against the table itself and applies it to the view made so
            # far, so only the first one may be a name/regex/value selector; the later ones are plain position slices
            sels = (self.selector(m),) + tuple(("slice", rng.choice([None, 0, 1, 2]), rng.choice([None, 1, 2, 3, -1]), rng.choice([None, None, 2]))
                                              for _ in range(ns - 1))
            k = rng.randint(1, len(m.cols))
            names = [c for c in rng.sample(m.cols, k) if " " not in c]
            e = self.expr(m)
            if e is not None and rng.random() < 0.8:
                names.append(e)
            if rng.random() < 0.25:
                names = []                     # cols=None: all columns
            elif not names:
                return None
            return ("d_select", tid, sels, tuple(names))
        if kind == "ctor":
            spec = gen_table(rng, {"sizes": [0, 1, 2, 3, 4], "index_first": True}, self.alpha)
            return ("ctor", spec, rng.choice(["ok", "ok", "index_not_listed", "index_not_listed", "index_is_scalar", "index_absent", "ragged", "not_array"]))
        if kind == "setcol":
            r = rng.random()
            if r < 0.5:
                col, k = m.index, "s"
                vals = [rng.choice(self.alpha) for _ in range(n)]
            elif r < 0.8:
                col = rng.choice(m.cols)
                k = kd[col]
                vals = [rng.choice(self.alpha) if col == m.index else (rng.choice(FLOATS) if k == "f" else rng.randint(-3, 6) if k == "i" else rng.choice(["u", "v"])) for _ in range(n)]
            else:
                self.newcol += 1
                col, k = "c%d" % self.newcol, rng.choice(["f", "i"])
                sc = sorted(x for x in m.scalars if x not in m.cols)
                if sc and rng.random() < 0.3:
                    col = rng.choice(sc)          # an entry that was a scalar so far becomes a column
                vals = [rng.choice(FLOATS) if k == "f" else rng.randint(0, 5) for _ in range(n)]
            fk = rng.randint(0, max(0, n - 1)) if (self.cfg.get("faults") and rng.random() < 0.25) else None
            return ("setcol", tid, col, k, tuple(vals), rng.choice(["item", "attr"]), fk)
        if kind == "vec_cols":
            return ("vec_cols", rng.choice([0, 1, 2, 3, 5]), rng.choice([1, 2, 3]), rng.choice([2, 3]),
                    tuple(rng.choice(self.alpha) for _ in range(5)))
        if kind == "newcol_list":
            self.newcol += 1
            return ("newcol_list", tid, "c%d" % self.newcol, rng.choice(["ragged", "ragged", "numbers", "strings"]))
        if kind == "setcol_b":
            num = [c for c in m.cols if kd.get(c) in ("f", "i") and c != m.index]
            if not num or n < 2:
                return None
            return ("setcol_b", tid, rng.choice(num), rng.randint(-3, 9), rng.choice(["scalar", "0d", "1el"]))
        if kind == "show":
            return ("show", tid, rng.random() < 0.5)
        if kind == "labelcol":
            self.newcol += 1
            return ("labelcol", tid, "lab%d" % self.newcol)
        if kind == "delcol":
            return ("delcol", tid, rng.choice(m.cols), rng.choice(["del", "pop"]))
        if kind == "reindex":
            return ("reindex", tid, rng.choice(["del", "pop"]), tuple(rng.choice(self.alpha) for _ in range(n)), rng.choice(["item", "attr"]))
        if kind == "sel":
            ns = 1 if rng.random() < 0.7 else 2
            sels = tuple(self.selector(m) for _ in range(ns))
            return ("sel", tid, sels, rng.choice(["rows", "indices", "mask"]))
        if kind == "compose":
            return ("compose", tid, self.selector(m), self.selector(m))
        if kind == "d_rows":
            ns = 1 if rng.random() < 0.8 else 2
            return ("d_rows", tid, tuple(self.selector(m) for _ in range(ns)))
        if kind == "d_cols":
            k = rng.randint(1, len(m.cols))
            names = rng.sample(m.cols, k)
            if rng.random() < 0.4:
                e = self.expr(m)
                if e is not None:
                    names.append(e)
            return ("d_cols", tid, tuple(names), rng.choice(["str", "list", "list", "lowlevel"]))
        if kind == "d_add":
            return ("d_add", tid, rng.randrange(len(self.models)))
        if kind == "d_mul":
            return ("d_mul", tid, rng.choice([0, 1, 2, 2, 3]))
        if kind == "d_concat":
            k = rng.randint(1, 3)
            return ("d_concat", tuple(rng.randrange(len(self.models)) for _ in range(k)))
        if kind == "d_copy":
            return ("d_copy", tid)
        if kind == "d_t":
            return ("d_t", tid)
        if kind == "expr":
            e = self.expr(m, rng.choice([1, 2, 3]))
            if e is None:
                return None
            return ("expr", tid, e, rng.choice(["item", "cols"]))
        return None

    # ---- model-only effect (keeps the generator's picture current) -----------------------
    def mstep(self, op):
        from .world import model_sel, np_row
        kind = op[0]
        M = self.models
        try:
            if kind == "setcell":
                _, tid, col, row, value, fk = op
                if fk is not None:
                    return
                m = M[tid]
                idx = m.resolve(np_row(row))
                if 0 <= idx < m.n():
                    m.data[col][idx] = value
            elif kind == "setslice":
                _, tid, col, sel, vals = op
                m = M[tid]
                idx = m.select1(model_sel(sel))
                if len(idx) == len(vals) and len(set(idx)) == len(idx):
                    for i, v in zip(idx, vals):
                        m.data[col][i] = v
            elif kind == "setcol":
                _, tid, col, k, vals, style, fk = op
                m = M[tid]
                if fk is not None or len(vals) != m.n():
                    return
                if col not in m.cols:
                    m.cols.append(col)
                    m.scalars.pop(col, None)
                    self.kinds[tid][col] = k
                m.data[col] = list(vals)
            elif kind == "setcol_b":
                _, tid, col, value, form = op
                m = M[tid]
                if col in m.cols and self.kinds[tid].get(col) in ("f", "i") and m.n() >= 2 and col != m.index:
                    m.data[col] = [float(int(value)) if self.kinds[tid][col] == "f" else int(value)] * m.n()
            elif kind == "labelcol":
                _, tid, col = op
                m = M[tid]
                if col not in m.cols and m.n() > 0:
                    m.cols.append(col)
                    m.data[col] = list(m.unique_labels())
                    self.kinds[tid][col] = "s"
            elif kind == "delcol":
                _, tid, col, how = op
                m = M[tid]
                if col in m.cols and col != m.index and len(m.cols) > 2 and col != m.cols[0]:
                    m.cols.remove(col)
                    del m.data[col]
            elif kind == "reindex":
                _, tid, how, vals, style = op
                m = M[tid]
                if len(vals) == m.n() and m.cols[0] != m.index:
                    m.cols.remove(m.index)
                    m.cols.append(m.index)
                    m.data[m.index] = list(vals)
            elif kind == "d_rows":
                _, tid, sels = op
                idx = M[tid].select(tuple(model_sel(s) for s in sels))
                self._add(M[tid].take_rows(idx), self.kinds[tid])
            elif kind == "d_select":
                _, tid, sels, names = op
                m = M[tid]
                sub = m.take_rows(m.select(tuple(model_sel(s) for s in sels)))
                texts, values = [], {}
                for nm in names:
                    if isinstance(nm, tuple):
                        tx = expr_text(nm)
                        values[tx] = [eval_expr(nm, {c: sub.data[c][i] for c in sub.cols}) for i in range(sub.n())]
                        texts.append(tx)
                    else:
                        texts.append(nm)
                if len(set(texts)) == len(texts):
                    kd = dict(self.kinds[tid])
                    for tx in values:
                        kd[tx] = "f"
                    self._add(sub.take_cols(texts if names else list(m.cols), values), kd)
            elif kind == "d_copy":
                self._add(M[op[1]].copy(), self.kinds[op[1]])
            elif kind == "d_mul":
                if op[2] > 0:
                    self._add(M[op[1]].repeat(op[2]), self.kinds[op[1]])
            elif kind == "d_add":
                a, b = M[op[1]], M[op[2]]
                if sorted(a.cols) == sorted(b.cols) and all(self.kinds[op[1]][c] == self.kinds[op[2]][c] for c in a.cols):
                    self._add(a.concat(b), self.kinds[op[1]])
            elif kind == "d_cols":
                _, tid, names, style = op
                m = M[tid]
                texts, values = [], {}
                for nm in names:
                    if isinstance(nm, tuple):
                        tx = expr_text(nm)
                        values[tx] = [eval_expr(nm, {c: m.data[c][i] for c in m.cols}) for i in range(m.n())]
                        texts.append(tx)
                    else:
                        texts.append(nm)
                if len(set(texts)) == len(texts):
                    kd = dict(self.kinds[tid])
                    for tx in values:
                        kd[tx] = "f"
                    self._add(m.take_cols(texts, values), kd)
            # d_concat / d_t results are not used as sources by later ops of the generator
        except Exception:
            return

    def _add(self, m, kinds):
        if len(self.models) < 7:
            self.models.append(m)
            self.kinds.append(dict(kinds))

    def history(self, n_ops):
        ops = []
        for _ in range(n_ops):
            for _a in range(6):
                op = self.propose()
                if op is None:
                    continue
                ops.append(op)
                self.mstep(op)
                break
        return ops


def self_kind(gen, m, c):
    for tid, mm in enumerate(gen.models):
        if mm is m:
            return gen.kinds[tid].get(c, "f")
    return "f"
