"""Drivers of table-sim: C07 (name resolution), C08 (row selection), C14 (derivations)."""
from ..common import rng_for, digest, tuplify
from .gen import TGen, gen_table, ALPHABETS, MIXED_ALPHABETS, SEPCHAR_ALPHABETS
from .engine import step
from .world import TWorld, TViolation

W_C07 = {"warm": 10, "get": 40, "labels": 6, "setcell": 22, "setslice": 8, "setcol": 10, "delcol": 3, "reindex": 3, "d_rows": 2, "d_copy": 1, "sel": 4,
         "d_mul": 2, "d_add": 2, "labelcol": 3, "show": 2}
W_C08 = {"polluter": 4, "sel": 50, "compose": 14, "setcell": 6, "setslice": 2, "setcol": 5, "d_rows": 6, "warm": 3, "get": 3, "reindex": 1}
W_C14 = {"d_select": 8, "d_rows": 14, "d_cols": 12, "d_add": 7, "d_mul": 5, "d_concat": 5, "d_copy": 6, "d_t": 4, "expr": 12,
         "setcol": 10, "setcell": 8, "setslice": 3, "delcol": 4, "sel": 3, "reindex": 1, "get": 2, "ctor": 6, "setcol_b": 3, "show": 3, "newcol_list": 3, "vec_cols": 2}


def _case(ctx, run, prop, weights, faults_p, sizes):
    rc = rng_for(ctx.seed, prop, run, "cfg")
    ra = rc.random()
    cfg = {"alphabet": rc.choice(ALPHABETS) if ra < 0.65 else (rc.choice(MIXED_ALPHABETS) if ra < 0.85 else rc.choice(SEPCHAR_ALPHABETS)),
           "sizes": sizes(rc),
           "faults": rc.random() < faults_p, "fixed_width": (prop == "C07" and rc.random() < 0.15),
           "n_ops": rc.randint(5, 40) if ctx.tier == "quick" else rc.randint(5, 100)}
    # the index column need not be called 'name' (and then another column may be); a column name may contain it
    cfg["index_name"] = "name" if rc.random() < 0.6 else rc.choice(["elem", "s", "key", "n"])
    cfg["name_col"] = rc.random() < 0.4
    cfg["substr_cols"] = rc.random() < 0.3
    w = dict(weights)
    for k in list(w):
        if rc.random() < 0.15 and k not in ("get", "sel", "d_rows", "setcell"):
            w[k] = 0
    if cfg["fixed_width"]:
        # derivations that rebuild the table through the checked constructor would cast the index column to objects
        for k in ("d_copy", "d_cols", "d_add", "d_mul", "d_concat", "d_t", "reindex"):
            w[k] = 0
        cfg["faults"] = False
    cfg["weights"] = w
    rt = rng_for(ctx.seed, prop, run, "tables")
    tables = [gen_table(rt, cfg, cfg["alphabet"]) for _ in range(rc.randint(1, 3))]
    g = TGen(rng_for(ctx.seed, prop, run, "ops"), cfg, tables)
    return {"cfg": cfg, "tables": tables, "ops": g.history(cfg["n_ops"])}


def case_from_json(j):
    def tab(t):
        out = {"cols": [tuple([c[0], c[1], list(c[2])]) for c in t["cols"]], "index": t["index"],
               "scalars": [tuple(x) for x in t.get("scalars", [])]}
        if t.get("fixed_width"):
            out["fixed_width"] = True
        return out

    def opj(o):
        if o[0] == "ctor":
            return ("ctor", tab(o[1]), o[2])
        return tuplify(o)
    return {"cfg": j["cfg"], "tables": [tab(t) for t in j["tables"]], "ops": [opj(o) for o in j["ops"]]}


def _execute(ctx, case, prop, nontrivial_tags):
    w = TWorld(ctx.xd, case["tables"], faulty=bool(case["cfg"].get("faults")))
    i = -1
    tags = {}
    try:
        for k in range(len(w.real)):
            w.check_equal(prop, k, "initial table")
        for i, op in enumerate(case["ops"]):
            tag = step(w, op, prop)
            tags[tag] = tags.get(tag, 0) + 1
            w.count("events")
    except TViolation as v:
        return {"violation": dict(v.to_json(), step=i), "nontrivial": any(t in tags for t in nontrivial_tags),
                "stats": dict(w.stats), "extra": {"counters": {"op:" + k: n for k, n in tags.items()}}, "trace_digest": None}
    st = dict(w.stats)
    return {"violation": None, "nontrivial": any(t in tags for t in nontrivial_tags), "stats": st,
            "extra": {"counters": {"op:" + k: n for k, n in tags.items()}}, "trace_digest": digest(sorted(tags.items()))}


class C07:
    prop = "C07"
    case_from_json = staticmethod(case_from_json)

    @staticmethod
    def generate(ctx, run):
        return _case(ctx, run, "C07", W_C07, 0.25, lambda r: r.choice([[0, 1, 2, 3, 4, 5, 6, 8], [3, 4, 5, 6], [17, 20, 33], [1, 2, 40]]))

    @staticmethod
    def execute(ctx, case):
        return _execute(ctx, case, "C07", ("setcell_index", "setcol_index", "reindex", "setslice_index"))


class C08:
    prop = "C08"
    case_from_json = staticmethod(case_from_json)

    @staticmethod
    def generate(ctx, run):
        return _case(ctx, run, "C08", W_C08, 0.0, lambda r: r.choice([[0, 1, 2, 3, 4, 5], [3, 4, 5, 6, 8], [17, 24], [2, 5, 30]]))

    @staticmethod
    def execute(ctx, case):
        return _execute(ctx, case, "C08", ("sel_rows", "sel_indices", "sel_mask", "sel_rows_multi", "sel_indices_multi", "sel_mask_multi", "compose"))


class C14:
    prop = "C14"
    case_from_json = staticmethod(case_from_json)

    @staticmethod
    def generate(ctx, run):
        return _case(ctx, run, "C14", W_C14, 0.1, lambda r: r.choice([[0, 1, 2, 3, 4, 5], [2, 3, 4, 6], [0, 7, 12]]))

    @staticmethod
    def execute(ctx, case):
        return _execute(ctx, case, "C14", ("d_rows", "d_cols", "d_add", "d_mul", "d_concat", "d_copy", "d_t", "d_select"))
