"""Simulator-owned user containers and callbacks (seams S2/S3 of DESIGN section 1).

xdeps calls back into the user's containers for every read and write
(owner[item], getattr(owner, attr), ...).  The classes below are ordinary
dict / list / object subclasses as a user could write them; they log each
access into the currently active trace and let the simulator inject a fault
(raise InjectedFault) at the k-th read or write of an update.

Nothing here reads a clock, id() or a PRNG.
"""


class InjectedFault(Exception):
    """Raised by a simulated container/callback on schedule."""


class InjectedZeroDivisionError(InjectedFault, ZeroDivisionError):
    pass


class InjectedKeyError(InjectedFault, KeyError):
    pass


class InjectedValueError(InjectedFault, ValueError):
    pass


class InjectedTypeError(InjectedFault, TypeError):
    pass


class InjectedOSError(InjectedFault, OSError):
    pass


class InjectedIndexError(InjectedFault, IndexError):
    pass


class InjectedStopIteration(InjectedFault, StopIteration):
    pass


class InjectedRuntimeError(InjectedFault, RuntimeError):
    pass


class InjectedAttributeError(InjectedFault, AttributeError):
    pass


class InjectedOverflowError(InjectedFault, OverflowError):
    pass


class InjectedAssertionError(InjectedFault, AssertionError):
    pass


class InjectedRecursionError(InjectedFault, RecursionError):
    pass


# what a user's container or callback may raise: the type must not matter to how the failure is reported
FAULT_TYPES = {"plain": InjectedFault, "zerodiv": InjectedZeroDivisionError, "key": InjectedKeyError,
               "value": InjectedValueError, "type": InjectedTypeError, "os": InjectedOSError, "index": InjectedIndexError,
               "stop": InjectedStopIteration, "runtime": InjectedRuntimeError, "attr": InjectedAttributeError,
               "overflow": InjectedOverflowError, "assertion": InjectedAssertionError, "recursion": InjectedRecursionError}
FAULT_NAMES = ("plain", "zerodiv", "key", "value", "type", "os", "index", "stop", "runtime", "attr", "overflow",
               "assertion", "recursion")


class SimStall(Exception):
    """CPU budget of one API call exceeded (DESIGN 3.3)."""


class _Ctx:
    """Process-global simulator context (module-level so containers pickle)."""
    trace = None          # list to append events to, or None (tracing off)
    fault = None          # dict(kind='w'|'r'|'act', n=countdown, fired=False) or None
    serial = 0            # container serial numbers in creation order
    fired = None          # set by a fired fault: the exception object

    @classmethod
    def reset(cls):
        cls.trace = None
        cls.fault = None
        cls.serial = 0
        cls.fired = None


def new_sid():
    _Ctx.serial += 1
    return _Ctx.serial


def _event(kind, sid, key):
    tr = _Ctx.trace
    if tr is None:
        return
    f = _Ctx.fault
    if f is not None and f["kind"] == kind and not f["fired"]:
        if f["n"] == 0:
            f["fired"] = True
            cls = FAULT_TYPES.get(f.get("exc", "plain"), InjectedFault)
            # user code also raises exceptions without any argument (`raise Fault()`, a bare assert)
            exc = cls() if f.get("noargs") else cls("%s#%s" % (kind, f.get("tag", "")))
            _Ctx.fired = exc
            tr.append(("X" + kind, sid, key))
            raise exc
        f["n"] -= 1
    tr.append((kind, sid, key))


class SimDict(dict):
    def __init__(self, *a, **k):
        dict.__init__(self, *a, **k)
        self._sid = new_sid()

    def __getitem__(self, k):
        _event("r", self._sid, k)
        return dict.__getitem__(self, k)

    def __setitem__(self, k, v):
        _event("w", self._sid, k)
        dict.__setitem__(self, k, v)

    def __reduce__(self):
        return (_rebuild_dict, (dict(self), self._sid))


def _rebuild_dict(d, sid):
    o = SimDict()
    dict.update(o, d)
    o._sid = sid
    return o


class SimList(list):
    def __init__(self, *a):
        list.__init__(self, *a)
        self._sid = new_sid()

    def __getitem__(self, k):
        _event("r", self._sid, k)
        return list.__getitem__(self, k)

    def __setitem__(self, k, v):
        _event("w", self._sid, k)
        list.__setitem__(self, k, v)

    def __reduce__(self):
        return (_rebuild_list, (list(self), self._sid))


def _rebuild_list(l, sid):
    o = SimList(l)
    o._sid = sid
    return o


_PRIVATE = ("_sid", "_items")


def _is_data_attr(name):
    """data attributes of a SimObj: everything except its two private names and dunder names (a data attribute may
    well start with a single underscore)"""
    return name not in _PRIVATE and not name.startswith("__")


class SimObj:
    """Attribute container.  Attributes are data; `_sid` (serial number) and `_items` are its own."""

    def __init__(self, **kw):
        object.__setattr__(self, "_sid", new_sid())
        for k, v in kw.items():
            object.__setattr__(self, k, v)

    def __getattribute__(self, name):
        if _is_data_attr(name):
            _event("r", object.__getattribute__(self, "_sid"), name)
        return object.__getattribute__(self, name)

    def __setattr__(self, name, v):
        if _is_data_attr(name):
            _event("w", object.__getattribute__(self, "_sid"), name)
        object.__setattr__(self, name, v)

    def _items(self):
        d = object.__getattribute__(self, "__dict__")
        return [(k, v) for k, v in d.items() if _is_data_attr(k)]

    def __reduce__(self):
        return (_rebuild_obj, (dict(self._items()), object.__getattribute__(self, "_sid")))


def _rebuild_obj(d, sid):
    o = SimObj(**d)
    object.__setattr__(o, "_sid", sid)
    return o


def raw_get(c, k):
    if isinstance(c, dict):
        return dict.__getitem__(c, k)
    if isinstance(c, list):
        return list.__getitem__(c, k)
    return object.__getattribute__(c, k)


def raw_set(c, k, v):
    if isinstance(c, dict):
        dict.__setitem__(c, k, v)
    elif isinstance(c, list):
        list.__setitem__(c, k, v)
    else:
        object.__setattr__(c, k, v)


def raw_items(c):
    if isinstance(c, dict):
        return list(dict.items(c))
    if isinstance(c, list):
        return list(enumerate(list.__iter__(c)))
    return c._items()


# ---- function container (module-level functions: picklable, printable) -------

def add3(a, b=0, c=0):
    _event("fn", 0, "add3")      # a call of a user function is an event too (it may raise on schedule)
    return a + b + c


def lin(x, k=2, q=0):
    _event("fn", 0, "lin")      # a call of a user function is an event too (it may raise on schedule)
    return k * x + q


def mix(a, b, w=0.5):
    _event("fn", 0, "mix")      # a call of a user function is an event too (it may raise on schedule)
    return a * w + b * (1 - w)


def vsum(c):
    """Sum of the numeric leaves directly inside container c (insertion order)."""
    tot = 0
    for _, v in raw_items(c):
        if isinstance(v, (int, float)):
            tot = tot + v
    return tot


def add3b(a, b=0, c=0):
    _event("fn", 0, "add3b")      # a call of a user function is an event too (it may raise on schedule)
    return a + b + c + 1


def linb(x, k=2, q=0):
    _event("fn", 0, "linb")      # a call of a user function is an event too (it may raise on schedule)
    return k * x + q - 0.5


def mixb(a, b, w=0.5):
    _event("fn", 0, "mixb")      # a call of a user function is an event too (it may raise on schedule)
    return a * (1 - w) + b * w


FUNCS = {"add3": add3, "lin": lin, "mix": mix, "vsum": vsum, "add3b": add3b, "linb": linb, "mixb": mixb}
SLOTS = {"add3": ("add3", "add3b"), "lin": ("lin", "linb"), "mix": ("mix", "mixb"), "vsum": ("vsum",)}


class SimFuncs:
    """Function container: each slot (attribute) holds a plain module-level function; a slot can be re-assigned
    through its reference like any other location (the tasks calling it must then run again)."""

    def __init__(self, impl=None):
        for slot, names in SLOTS.items():
            object.__setattr__(self, slot, FUNCS[(impl or {}).get(slot, names[0])])

    def _impl(self):
        return {slot: object.__getattribute__(self, slot).__name__ for slot in SLOTS}

    def __reduce__(self):
        return (SimFuncs, (self._impl(),))
