"""Property registry: which driver, which builds, run counts per tier, evidence texts."""

COMPONENTS_MANAGER = {
    "real": ["xdeps.tasks (Manager, ExprTask, FunctionTask, LinearKnob)", "xdeps.sorting.toposort",
             "xdeps.refs (all Ref/Expr classes) in BOTH builds: Cython-compiled from the working tree and pure Python",
             "pickle / eval / exec of the interpreter"],
    "stub": ["user containers (SimDict/SimList/SimObj: logging + fault injection)",
             "FunctionTask actions and function container (simulator-supplied callables)",
             "reference model (pull evaluation) used as oracle"],
}
COMPONENTS_TABLE = {
    "real": ["xdeps.table (Table, _RowView, _ColView, Indices, Mask, _View)", "numpy"],
    "stub": ["column storage optionally a FaultyArray(np.ndarray) raising on the k-th element write",
             "naive list-based reference table/selector used as oracle"],
}
COMPONENTS_OPT = {
    "real": ["xdeps.optimize.optimize (Optimize, MeritFunctionForMatch, Vary, Target, Action)",
             "xdeps.optimize.jacobian.JacobianSolver", "xdeps.optimize.matrixutils.SVD", "xdeps.table.Table (log)", "numpy"],
    "stub": ["the user's Action.run (generated deterministic plant; fails / raises on schedule)",
             "knob container (logging dict)"],
}

REG = {}


def _reg(prop, module, cls, level, runs, batch, builds, components, rule, budget=None):
    REG[prop] = dict(prop=prop, module=module, cls=cls, level=level, runs=runs, batch=batch, builds=builds,
                     components=components, rule=rule, budget=budget or {"quick": 50, "thorough": 900})


_reg("C01", "xsim.manager.props", "C01", "exploration", {"quick": 6400, "thorough": 200000}, {"quick": 200, "thorough": 800},
     ("pure", "compiled"), COMPONENTS_MANAGER,
     "one case = one seeded world + history of 5..40 (quick) / 5..120 (thorough) assignment ops run under one "
     "(PYTHONHASHSEED, build, name salt); distinct = distinct case digest; non-trivial = at least one update that "
     "triggered >= 1 task")
_reg("C02", "xsim.manager.props", "C02", "exploration", {"quick": 6400, "thorough": 200000}, {"quick": 200, "thorough": 800},
     ("pure", "compiled"), COMPONENTS_MANAGER,
     "one case = seeded world + history; every propagating op's container-write/action trace is attributed to tasks; "
     "distinct = distinct case digest; non-trivial = at least one update that triggered >= 1 task")


def driver_for(prop):
    import importlib
    r = REG[prop]
    return getattr(importlib.import_module(r["module"]), r["cls"])
