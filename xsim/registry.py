"""Property registry: which driver, which builds, run counts per tier, evidence texts."""

COMPONENTS_MANAGER = {
    "real": ["xdeps.tasks (Manager, ExprTask, FunctionTask, LinearKnob)", "xdeps.sorting.toposort",
             "xdeps.refs (all Ref/Expr classes) in BOTH builds: Cython-compiled from the working tree and pure Python",
             "pickle / eval / exec of the interpreter"],
    "stub": ["user containers (SimDict/SimList/SimObj: logging + fault injection)",
             "FunctionTask actions and function container (simulator-supplied callables)",
             "reference model (pull evaluation) used as oracle"],
}
COMPONENTS_TABLE = {
    "real": ["xdeps.table (Table, _RowView, _ColView, Indices, Mask, _View)", "numpy"],
    "stub": ["column storage optionally a FaultyArray(np.ndarray) raising on the k-th element write",
             "naive list-based reference table/selector used as oracle"],
}
COMPONENTS_OPT = {
    "real": ["xdeps.optimize.optimize (Optimize, MeritFunctionForMatch, Vary, Target, Action)",
             "xdeps.optimize.jacobian.JacobianSolver", "xdeps.optimize.matrixutils.SVD", "xdeps.table.Table (log)", "numpy"],
    "stub": ["the user's Action.run (generated deterministic plant; fails / raises on schedule)",
             "knob container (logging dict)"],
}

REG = {}


def _reg(prop, module, cls, level, runs, batch, builds, components, rule, budget=None):
    REG[prop] = dict(prop=prop, module=module, cls=cls, level=level, runs=runs, batch=batch, builds=builds,
                     components=components, rule=rule, budget=budget or {"quick": 60, "thorough": 900})


_reg("C01", "xsim.manager.props", "C01", "exploration", {"quick": 6400, "thorough": 1500000}, {"quick": 200, "thorough": 1000},
     ("pure", "compiled"), COMPONENTS_MANAGER,
     "one case = one seeded world + history of 5..40 (quick) / 5..120 (thorough) assignment ops run under one "
     "(PYTHONHASHSEED, build, name salt); containers: dicts, objects, lists, lists of records, numpy-keyed lists/dicts; 35 % of the "
     "histories pass through two frozen windows (plain assignments only); distinct = distinct case digest; non-trivial = at least "
     "one update that triggered >= 1 task")
_reg("C02", "xsim.manager.props", "C02", "exploration", {"quick": 9600, "thorough": 1500000}, {"quick": 200, "thorough": 1000},
     ("pure", "compiled"), COMPONENTS_MANAGER,
     "one case = seeded world + history (35 % with two frozen windows; 30 % with assignments that fail half-way and are repeated); every "
     "propagating op's container-write/action trace is attributed to tasks; dedicated scenarios: cyclic graphs (10 %), deep chains, "
     "colliding hashes, assignment through a reference-valued subscript (1 %); "
     "distinct = distinct case digest; non-trivial = at least one update that triggered >= 1 task")
_reg("C03", "xsim.manager.props", "C03", "exploration", {"quick": 6400, "thorough": 400000}, {"quick": 200, "thorough": 800},
     ("pure", "compiled"), COMPONENTS_MANAGER,
     "one case = seeded world + history biased to register/unregister/replace/load over nested targets; after every op the "
     "subject is compared with a freshly built manager (index supports, verify, queries, reaction to the next op); function tasks "
     "with and without targets / dependencies; half of the histories contain assignments of an expression that cannot be evaluated; "
     "distinct = distinct case digest; non-trivial = at least one removal or replacement of a registered task happened")
_reg("C18", "xsim.manager.props", "C18", "fault_enumeration", {"quick": 1600, "thorough": 60000}, {"quick": 50, "thorough": 250},
     ("pure", "compiled"), COMPONENTS_MANAGER,
     "one case = seeded history + up to 3 crash updates; for each, EVERY container write, EVERY container read and EVERY action call "
     "of the fault-free trace (capped at 24 per kind, evenly spread) is failed once on a re-executed copy (13 exception classes in rotation), optionally twice in a row, "
     "then the assignment is repeated fault-free; distinct = distinct case digest; non-trivial = at least one fault was injected "
     "(the count of faulted executions is in probes.faulted_executions)")
_reg("C17", "xsim.manager.props", "C17", "fault_enumeration", {"quick": 1280, "thorough": 40000}, {"quick": 40, "thorough": 200},
     ("pure", "compiled"), COMPONENTS_MANAGER,
     "one case = seeded history; the manager is frozen at EVERY position of it (each on a re-executed copy) and subjected to ~8 "
     "generated API calls (assign expression/value, in-place op, register incl. an already registered task object, unregister, load, "
     "copy_expr_from with and without bindings, refresh, verify, "
     "cleanup, clone); then unfrozen and the rest of the history is run; distinct = distinct case digest; non-trivial = at least "
     "one mutating call was made on a frozen manager (count in probes.mutating_calls_on_frozen)")
_reg("C12", "xsim.manager.props", "C12", "exploration", {"quick": 16000, "thorough": 1000000}, {"quick": 250, "thorough": 1000},
     ("pure", "compiled"), COMPONENTS_MANAGER,
     "one case = seeded expression/linear-knob history with 1-3 pickle restarts at random positions, each followed by one of: "
     "mirrored assignments on original and copy, assignments to the copy only, assignments to the original only; 40 % numpy keys, "
     "30 % with one of the manager's own default containers holding a reference cycle; distinct = "
     "distinct case digest; non-trivial = at least one pickle restart was executed")
_reg("C11", "xsim.manager.props", "C11", "exploration", {"quick": 16000, "thorough": 1000000}, {"quick": 250, "thorough": 1000},
     ("pure", "compiled"), COMPONENTS_MANAGER,
     "one case = seeded expression history with 1-3 'restarts' at random positions: dump() -> json -> load() into a fresh manager "
     "(then mirrored execution), or copy_expr_from into another manager (plain, or rebinding the label to a nested reference, "
     "overwrite both ways, pre-existing definitions); every assigned expression and target is also printed and re-evaluated; "
     "distinct = distinct case digest; non-trivial = at least one restart was executed")
_reg("C13", "xsim.manager.props", "C13", "exploration", {"quick": 9600, "thorough": 600000}, {"quick": 150, "thorough": 600},
     ("pure", "compiled"), COMPONENTS_MANAGER,
     "one case = seeded acyclic expression history with 1-5 gen_fun calls at random positions (1-3 graph-leaf arguments, 30 % plus an "
     "entry of the function container, generated values, 20 % a last call with a value at the edge of the float range); the subject calls the generated function, a twin manager with the same history assigns through set_value; the "
     "mk_fun source is checked line by line; distinct = distinct case digest; non-trivial = at least one generated function was called")
_reg("C20", "xsim.manager.props", "C20", "exploration", {"quick": 4800, "thorough": 60000}, {"quick": 150, "thorough": 500},
     ("pure", "compiled"), COMPONENTS_MANAGER,
     "one case = one seeded program (history with fixed names + 0-3 assignments that make Python raise, incl. an unhashable subscript) executed in N fresh "
     "interpreters: {compiled, pure} x hash seeds (quick 2x2, thorough 2x8); the per-op transcript (exception type, canonical "
     "contents, sorted definitions, dump() in its own order) must have the same digest in all of them; evaluations = program "
     "executions; distinct = distinct programs; non-trivial = the program had at least one update that triggered a task")
REG["C20"]["cross"] = {"quick": 2, "thorough": 8}      # hash seeds per build
_reg("C07", "xsim.table.props", "C07", "exploration", {"quick": 64000, "thorough": 3000000}, {"quick": 1000, "thorough": 4000},
     ("pure",), COMPONENTS_TABLE,
     "one case = 1-3 seeded tables (0..40 rows, index column over a 3-5 name alphabet with repetition) + a history of lookups "
     "(t[col,row], rows.get_index, t // row, get_index_unique) interleaved with mutations (cell by position/name/name::k/tuple, whole "
     "column item/attr style, cells through slices / position lists / name spans, positions from the end, new/deleted columns, products and sums of tables, "
     "index column replaced via pop+assign), cache warm or cold, optional torn array writes, 15 % fixed-width string index columns, "
     "names with case variants / regex metacharacters / separator characters, 40 % index columns not called 'name'; distinct = distinct case digest; non-trivial = the index column was mutated at least once")
_reg("C08", "xsim.table.props", "C08", "exploration", {"quick": 64000, "thorough": 3000000}, {"quick": 1000, "thorough": 4000},
     ("pure",), COMPONENTS_TABLE,
     "one case = 1-3 seeded tables + a history of rows[...] / rows.indices[...] / rows.mask[...] with every selector form (position, "
     "lists, masks, regex with ::count and shifts, name spans, value ranges open and closed), pairs for the composition law, on "
     "tables that are also mutated and derived, non-capturing/flag/named groups among the patterns, throw-away case-sensitive tables "
     "using the same pattern texts in the same interpreter, 40 % index columns not called 'name' (optionally beside an ordinary 'name' column); each worker interpreter runs under its own PYTHONHASHSEED; distinct = distinct "
     "case digest; non-trivial = at least one selection was compared with the naive selector")
_reg("C14", "xsim.table.props", "C14", "exploration", {"quick": 48000, "thorough": 3000000}, {"quick": 750, "thorough": 4000},
     ("pure",), COMPONENTS_TABLE,
     "one case = 1-3 seeded tables + a history of derivations (rows, cols incl. expression columns, +, *, concatenate, _copy, _t, "
     "_select), calls of the checked constructor with consistent and inconsistent arguments, non-scalar extra entries, scalar entries "
     "promoted to columns, column names containing the index name, "
     "and column/cell assignments over a population of up to 7 live tables that may share arrays; after every op every live table "
     "is checked; distinct = distinct case digest; non-trivial = at least one derivation produced a table")
_reg("C09", "xsim.optimizer.props", "C09", "fault_enumeration", {"quick": 2560, "thorough": 100000}, {"quick": 40, "thorough": 150},
     ("pure",), COMPONENTS_OPT,
     "one case = one generated problem (plant family, limits, weights, tolerances, solver options, optional earlier steps); solve() "
     "is run fault-free (N plant evaluations), then once for EVERY evaluation index k < N (capped at 40, evenly spread) with the "
     "action raising at k and once with it returning 'failed' at k, plus random multi-fault plans; distinct = distinct case "
     "digest; non-trivial = at least one faulted solve was executed (count in probes.faulted_solves)")
_reg("C10", "xsim.optimizer.props", "C10", "exploration", {"quick": 32000, "thorough": 1500000}, {"quick": 500, "thorough": 2000},
     ("pure",), COMPONENTS_OPT,
     "one case = one generated problem (solutions inside, outside and far from the limits; per-knob max_step; persistently and "
     "per-call disabled knobs/targets; unit and non-unit weights) + a history of step/solve/enable/disable/reload/tag calls, "
     "optionally with 'failed' plant evaluations and a twin run whose disabled target returns unrelated values; on linear plants a "
     "second twin replays the history with finite-difference Jacobians in place of Broyden updates; distinct = "
     "distinct case digest; non-trivial = at least one step/solve call was monitored")
_reg("C15", "xsim.optimizer.props", "C15", "exploration", {"quick": 32000, "thorough": 1500000}, {"quick": 500, "thorough": 2000},
     ("pure",), COMPONENTS_OPT,
     "one case = one generated problem + a history of step/solve/reload/reload(tag)/tag/enable/disable/clear_log/user knob "
     "assignments (failing solves included, optional fault plans); after every call the log must be aligned and readable and a "
     "take_best step must end within tolerance or on a minimum-penalty row; at the end every row is reloaded and re-evaluated "
     "independently; distinct = distinct case digest; non-trivial = at least two log rows were reproduced")


def driver_for(prop):
    import importlib
    r = REG[prop]
    return getattr(importlib.import_module(r["module"]), r["cls"])


# ---------------------------------------------------------------------------
# texts for MANIFEST.json (tools/mkmanifest.py)
# ---------------------------------------------------------------------------
NOT_APPLICABLE = {
    "C04": "pure function of (expression tree, operand values): no schedule, clock, fault or history for a simulator to own; "
           "input generation in simulator vocabulary would be a change of technique",
    "C05": "pure structural function of an expression tree (enumeration node class x operand slot): nothing to schedule, interleave or fail",
    "C06": "pure relation over pairs of access paths (==/hash agreement); the hash seed changes hash values, not whether == and hash agree",
    "C16": "linear-algebra identities of pure numeric functions (SVD.lstsq, weight/rescale maps, finite-difference Jacobian): "
           "no nondeterminism or fault to inject",
    "C19": "agreement of two pure evaluators over a grammar: differential input generation, no schedule/fault/history dimension",
}

_TB = ("trusted: the reference model in xsim/ (independent of xdeps), CPython 3.12 + numpy of /venv, the scratch build made from "
       "/repo's working tree; schedules are reached through PYTHONHASHSEED x name salt x build only; seeded sampling, not proof")

MANIFEST_TEXT = {
    "C01": dict(
        text="seeded search over assignment histories (value / expression / in-place / removal / re-definition / whole-container, "
             "function and linear-knob tasks, nested dict/list/attribute containers, consumer-before-producer, deep chains) executed "
             "on the real Manager in both builds under many hash-seed x name-salt schedules; after EVERY op the complete container "
             "contents are compared with a pull-evaluation reference model. A for-all over histories and schedules can only be "
             "sampled; the level is exploration with the KF-1 known finding reported, not hidden",
        design_ref="DESIGN.md 5 (C01), 4.1, 6", note=_TB,
        technique="deterministic simulation: seeded histories x hash-order schedules vs pull-model oracle"),
    "C02": dict(
        text="the ordered trace of container writes/reads and action calls of every single update (logging containers) is attributed "
             "to task executions and checked against the model's trigger set: exactly once each, producers first, nothing else, "
             "initial write first; cyclic public graphs: at most once and termination under a CPU stall guard. Schedules come from "
             "hash seed x name salt x build; evidence counts distinct (graph, order) pairs. An assignment made through a reference-valued "
             "subscript also runs the readers of the subscript: known finding KF-3, reported, not hidden",
        design_ref="DESIGN.md 5 (C02)", note=_TB,
        technique="deterministic simulation: per-update execution traces under seeded schedules"),
    "C03": dict(
        text="histories biased to register / unregister / replace / load over nested targets; after every op the subject manager is "
             "compared with a freshly built manager holding only the surviving definitions: supports of the four indices (also vs a "
             "derivation from the tasks' public attributes), verify(), find_deps/_find_dependant_targets/_expr/_tasks, and the "
             "reaction (exception, executed task set, contents) to the next op; refresh()/clone() at random points",
        design_ref="DESIGN.md 5 (C03)", note=_TB,
        technique="deterministic simulation: history refinement against a fresh twin manager"),
    "C17": dict(
        text="fault enumeration over freeze points: the manager is frozen at EVERY position of each sampled history (on a "
             "re-executed copy), then every kind of mutating entry point (assign expression, value over an expression, in-place op "
             "on a defined location, register, unregister, load, copy_expr_from) must raise ValueError and leave definitions, data, "
             "index supports and all query answers equal to the snapshot taken before; refresh/verify/cleanup/clone must succeed and "
             "change nothing; plain-value assignments must still propagate (C01 oracle); after unfreeze the rest of the history "
             "must match the never-frozen model and a fresh twin",
        design_ref="DESIGN.md 5 (C17)", note=_TB,
        technique="deterministic simulation: freeze injected at every history position, atomicity snapshots"),
    "C18": dict(
        text="fault enumeration over crash points: for up to 3 updates per sampled history the fault-free event trace W is recorded "
             "on a re-executed copy, then EVERY container write (incl. the initial one), EVERY container read and EVERY action call "
             "of W is failed once (InjectedFault), optionally twice in a row; oracle: the injected exception object reaches the "
             "caller, the executed trace is exactly the prefix of W up to the failure, verify() and index supports stay consistent, "
             "definitions and queries are unchanged (pure propagation), and a fault-free repeat re-establishes every value "
             "(linear knobs as their own violation class)",
        design_ref="DESIGN.md 5 (C18)", note=_TB,
        technique="deterministic simulation: fault injection at every access of an update, recovery check"),
    "C11": dict(
        text="expression-only histories with 1-3 durable-form 'restarts' at arbitrary points: dump() -> JSON -> load() into a "
             "fresh manager over copied containers, or copy_expr_from into another manager (plain, or rebinding the label to a "
             "nested reference, overwrite both ways, pre-existing definitions kept); after the restart the history continues in "
             "lock-step on both managers (contents, definitions) or on the copy; every assigned expression/target is printed and "
             "re-evaluated (==, hash, value, dependencies). Deferred equality nodes (KF-2) run as a separate 12% population",
        design_ref="DESIGN.md 5 (C11), 6", note=_TB,
        technique="deterministic simulation: dump/load and copy_expr_from restarts inside seeded histories, lock-step twin"),
    "C12": dict(
        text="histories (every node class incl. builtins with parameters, calls with kwargs, computed keys, linear knobs) with "
             "1-3 pickle restarts at arbitrary points; the restored manager must have the same definitions (==, hash, value, "
             "dependencies, task sets), index supports, contents and knob state, pass verify(), behave identically under mirrored "
             "follow-up assignments, and the two copies must be isolated in both directions (snapshot of the untouched one)",
        design_ref="DESIGN.md 5 (C12)", note=_TB,
        technique="deterministic simulation: pickle restart/fork inside seeded histories, mirrored and isolated continuation"),
    "C13": dict(
        text="acyclic expression histories with gen_fun calls at random points: the subject calls the generated function, a twin "
             "manager with the same history (same names, same schedule) assigns the same values through set_value; contents must be "
             "equal to each other and to the model; the mk_fun source must start with the argument assignments and list every "
             "task that really depends on an argument exactly once, after its triggered producers, and nothing outside the "
             "manager's trigger set. Zero-division cases are skipped (the property's proviso)",
        design_ref="DESIGN.md 5 (C13)", note=_TB,
        technique="deterministic simulation: twin execution of generated code vs manager under seeded histories/schedules"),
    "C20": dict(
        text="each seeded program of manager operations (fixed names; histories as in C01/C03 plus assignments that make Python "
             "raise) is executed in fresh interpreters under {Cython-compiled from the working tree, pure Python} x several "
             "PYTHONHASHSEEDs; the parent compares the per-op transcript digests (exception type, canonical contents, sorted "
             "definitions, dump() text in its own order); a mismatch is confirmed in fresh interpreters, minimised across "
             "processes and written as a replay naming both configurations. Transcripts end at the first update whose triggered "
             "public task graph is cyclic (KF-1, decided by the model, hence identically in every configuration)",
        design_ref="DESIGN.md 5 (C20), 3.7", note=_TB + "; float zeros compare equal regardless of sign (Cython's float*int fast path "
                   "returns 0.0 for 0.0 * -3 where the interpreter returns -0.0)",
        technique="deterministic simulation: same seeded program across build x hash-seed configurations, transcript diff"),
    "C07": dict(
        text="histories of lookups (t[col,row], rows.get_index, t // row, the labels of cols.get_index_unique) in every row form "
             "(position, name, name::count, name<<k, name>>k, tuples; present/absent names; positive, negative, out-of-range counts) "
             "interleaved with every API mutation (cell by position/name/tuple, whole column item- and attribute-style, new and "
             "deleted columns, index column replaced via pop/del + assignment), with the name cache warm or cold before each "
             "mutation and optional torn array writes; every answer must equal a linear scan of the CURRENT index column, absent "
             "occurrences must raise KeyError. Tables whose index array was rewritten through another table sharing it are excluded",
        design_ref="DESIGN.md 5 (C07), 4.2", note=_TB,
        technique="deterministic simulation: cache-coherence over seeded update/lookup interleavings with storage faults"),
    "C08": dict(
        text="histories of rows[...], rows.indices[...], rows.mask[...] with every selector form and pairs of selectors on tables "
             "that are also mutated and derived (views of views), compared with a naive reference selector (re.fullmatch IGNORECASE, "
             "occurrence counting by scan, inclusive spans and ranges) in table order; rows[s1,s2] vs rows[s1].rows[s2]; every "
             "worker interpreter has its own PYTHONHASHSEED, so agreement with the deterministic reference under all of them is the "
             "hash-seed clause. The denotation itself is a pure function (see DESIGN): simulation adds the histories and the seeds",
        design_ref="DESIGN.md 5 (C08), 4.2", note=_TB,
        technique="deterministic simulation: selector oracle on evolving tables across hash seeds"),
    "C14": dict(
        text="histories of derivations (rows, cols incl. expression columns, +, *, concatenate, _copy, _t) and column/cell "
             "assignments over up to 7 live tables that may share arrays; after every op EVERY live table must be rectangular with "
             "all listed columns present and the index among them, a derived table must equal the model derivation (scalars "
             "carried), a derivation (also one that raises half way) must leave every other table's length, column list and cells "
             "untouched, and a mutation must not change another table's structure; column expressions equal element-wise evaluation; "
             "new columns handed over as python lists (also ragged ones numpy refuses) and tables with one vector per row go "
             "through the same derivations",
        design_ref="DESIGN.md 5 (C14), 4.2", note=_TB,
        technique="deterministic simulation: stateful derivation histories with aliasing against a reference table"),
    "C09": dict(
        text="fault enumeration over the user's callback: for each generated problem solve() is first run fault-free (N plant "
             "evaluations) and then once per evaluation index k < N with the action raising at k and once with it returning "
             "'failed' at k (cap 40 indices, evenly spread), plus random multi-fault plans and fault-free failures (inconsistent "
             "systems, solutions outside limits). Oracle: normal return => every active target, recomputed by the plant from the "
             "knob container, is within tolerance; exception + restore_if_fail => knobs and active flags equal iteration 0 of the "
             "log (bit-exact for unit weights), the action's own exception object reaches the caller, the log stays aligned",
        design_ref="DESIGN.md 5 (C09), 4.3", note=_TB,
        technique="deterministic simulation: callback fault at every evaluation index of solve()"),
    "C10": dict(
        text="invariants monitored while histories of step/solve/enable/disable/reload calls and scipy-based runs "
             "(run_simplex/ls_trf/l_bfgs_b/direct: limits and disabled knobs only) run on generated plants whose "
             "solution lies inside, outside or far from the limits: every new log row and the containers inside the closed limits; "
             "|delta knob| <= max_step between consecutive Jacobian rows (unit weights); a knob disabled persistently or for one "
             "call keeps its value in every row; knobs/targets disabled for one call are active again afterwards and calls with "
             "such arguments are usable; 'failed' plant evaluations injected inside calls; a twin run on a plant whose disabled "
             "target returns unrelated values must produce bit-identical knob trajectories and penalties",
        design_ref="DESIGN.md 5 (C10), 4.3", note=_TB,
        technique="deterministic simulation: invariant monitoring of optimizer iterates with a misbehaving plant and a twin"),
    "C15": dict(
        text="histories over step/solve/reload/reload(tag)/tag/enable/disable/clear_log/user knob assignments with failing solves "
             "and fault plans (action raising or returning 'failed' inside chosen calls): after every call the log lists must be "
             "aligned and log() readable; a step/solve with take_best that returns normally must end within tolerance or on a "
             "minimum-penalty row of that call; at the end EVERY row is reloaded (knobs bit-exact for unit weights, active flags) "
             "and the plant evaluated independently there must reproduce the row's targets and penalty; rows written during a "
             "faulted call are excluded from the reproduction clause only",
        design_ref="DESIGN.md 5 (C15), 4.3", note=_TB,
        technique="deterministic simulation: optimizer call histories with callback faults, log replay oracle"),
}
