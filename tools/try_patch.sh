#!/bin/bash
# usage: tools/try_patch.sh <patch.diff | -R:<commit>> <check id> [extra check args...]
# Applies a patch (or reverts a commit) in a scratch worktree of /repo outside /repo and /verif,
# runs one check against it (XSIM_REPO points the build at the scratch tree), removes the worktree.
set -u
PATCH="$1"; shift
case "$PATCH" in -R:*) ;; /*) ;; *) PATCH="$(pwd)/$PATCH" ;; esac
WT=$(mktemp -d /var/tmp/xsim-wt-XXXXXX)
rmdir "$WT"
git -C /repo worktree add -q --detach "$WT" HEAD || exit 3
cleanup() { git -C /repo worktree remove --force "$WT" >/dev/null 2>&1; rm -rf "$WT"; }
trap cleanup EXIT
case "$PATCH" in
  -R:*) git -C "$WT" show "${PATCH#-R:}" | git -C "$WT" apply -R || { echo "revert failed"; exit 3; } ;;
  *)    git -C "$WT" apply "$PATCH" || { echo "patch does not apply"; exit 3; } ;;
esac
cd /verif
XSIM_REPO="$WT" XSIM_REPLAY_DIR=/var/tmp/xsim-seed-replays XSIM_EVIDENCE_DIR=/var/tmp/xsim-seed-evidence ./check "$@"
rc=$?
echo "try_patch: exit code $rc"
exit $rc
