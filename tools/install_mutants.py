#!/venv/bin/python
"""Copy confirmed sub-agent deliveries into /verif/seeded/<prop>-<mut>/ (patch.diff, demo.py, notes.md, meta.json)."""
import glob, json, os, shutil, sys
V = os.path.dirname(os.path.dirname(os.path.abspath(__file__)))
for cj in sorted(glob.glob("/var/tmp/confirm/C*-mut*.json")):
    rec = json.load(open(cj))
    name = os.path.basename(cj)[:-5]          # C02-mutA
    prop = name.split("-")[0]
    if not rec.get("ok"):
        print("skip (not confirmed):", name)
        continue
    dst = os.path.join(V, "seeded", name)
    if os.path.exists(os.path.join(dst, "meta.json")):
        continue                     # installed earlier (its patch may have been rebased since): left alone
    os.makedirs(dst, exist_ok=True)
    for f in ("patch.diff", "demo.py", "notes.md"):
        src = os.path.join(rec["dir"], f)
        if os.path.exists(src) and os.path.abspath(src) != os.path.abspath(os.path.join(dst, f)):
            shutil.copy2(src, os.path.join(dst, f))
    mp = os.path.join(dst, "meta.json")
    meta = json.load(open(mp)) if os.path.exists(mp) else {}
    notes = open(os.path.join(dst, "notes.md")).read() if os.path.exists(os.path.join(dst, "notes.md")) else ""
    meta.update({
        "id": name, "breaks_property": prop, "origin": "independent sub-agent given only the property text and a scratch worktree",
        "needs_to_manifest": meta.get("needs_to_manifest") or "see notes.md",
        "confirmed": {
            "base_commit": rec.get("base_commit"), "files_changed": rec.get("files"),
            "test_suite_with_change": rec.get("tests_tail"), "tests_failed_names": rec.get("tests_failed_names"),
            "demo_exit_clean_tree": rec.get("demo_clean_rc"), "demo_exit_with_change": rec.get("demo_mut_rc"),
            "how": "tools/confirm_mutant.py in a scratch worktree under /var/tmp: build, demo on clean tree, git apply, rebuild, pytest, demo",
        },
    })
    json.dump(meta, open(mp, "w"), indent=1)
    print("installed", name)
