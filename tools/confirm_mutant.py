#!/venv/bin/python
"""Independent confirmation of a seeded change delivered by a sub-agent.

usage: tools/confirm_mutant.py <dir with patch.diff and demo.py> [<out.json>]

In a scratch worktree of /repo (under /var/tmp, removed afterwards):
  1. build the extension on the clean tree, run demo.py  -> must exit 0
  2. apply patch.diff, rebuild the extension, run the pinned test-suite -> same 76 passed
  3. run demo.py with the change -> must exit non-zero
Prints and writes a JSON record of what was run and observed.
"""
import json
import os
import re
import subprocess
import sys
import tempfile
import shutil

PY = "/venv/bin/python"


def sh(cmd, cwd, timeout=1800, env=None):
    e = dict(os.environ)
    e.pop("PYTHONPATH", None)
    if env:
        e.update(env)
    r = subprocess.run(cmd, cwd=cwd, shell=isinstance(cmd, str), stdout=subprocess.PIPE, stderr=subprocess.STDOUT, text=True,
                       timeout=timeout, env=e)
    return r.returncode, r.stdout


def build(wt):
    rc, out = sh([PY, "setup.py", "build_ext", "--inplace", "-q"], wt, env={"CFLAGS": "-O0 -g0"})
    shutil.rmtree(os.path.join(wt, "build"), ignore_errors=True)
    return rc, out[-2000:]


def main():
    d = os.path.abspath(sys.argv[1])
    out_path = sys.argv[2] if len(sys.argv) > 2 else None
    patch = os.path.join(d, "patch.diff")
    demo = os.path.join(d, "demo.py")
    wt = tempfile.mkdtemp(prefix="xsim-mut-", dir="/var/tmp")
    os.rmdir(wt)
    rec = {"dir": d, "ok": False}
    try:
        subprocess.run(["git", "-C", "/repo", "worktree", "add", "-q", "--detach", wt, "HEAD"], check=True)
        rec["base_commit"] = subprocess.run(["git", "-C", wt, "rev-parse", "--short", "HEAD"], capture_output=True, text=True).stdout.strip()
        rc, o = build(wt)
        rec["build_clean_rc"] = rc
        envx = {"XDEPS_ROOT": wt, "XDEPS_WORKTREE": wt}
        demo_cmd = [PY, demo, wt]
        rc, o = sh(demo_cmd, wt, timeout=900, env=envx)
        if rc != 0:
            # some demos take no argument (or give it another meaning): the cwd / environment tells them the tree
            demo_cmd = [PY, demo]
            rc, o = sh(demo_cmd, wt, timeout=900, env=envx)
        rec["demo_cmd"] = " ".join(demo_cmd[1:])
        rec["demo_clean_rc"] = rc
        rec["demo_clean_tail"] = o[-600:]
        rc, o = sh(["git", "apply", patch], wt)
        rec["apply_rc"] = rc
        if rc != 0:
            rec["apply_out"] = o[-800:]
            return rec
        rec["files"] = subprocess.run(["git", "-C", wt, "diff", "--stat"], capture_output=True, text=True).stdout.strip().splitlines()
        rc, o = build(wt)
        rec["build_mut_rc"] = rc
        if rc != 0:
            rec["build_out"] = o
            return rec
        rc, o = sh([PY, "-m", "pytest", "-q", "-p", "no:cacheprovider", "--timeout=900", "--continue-on-collection-errors"], wt)
        tail = o.strip().splitlines()[-1] if o.strip() else ""
        rec["tests_tail"] = tail
        m = re.search(r"(\d+) passed", tail)
        f = re.search(r"(\d+) failed", tail)
        rec["tests_passed"] = int(m.group(1)) if m else 0
        rec["tests_failed"] = int(f.group(1)) if f else 0
        failed = re.findall(r"^FAILED (\S+)", o, flags=re.M)
        rec["tests_failed_names"] = failed
        rc, o = sh(demo_cmd, wt, timeout=900, env=envx)
        rec["demo_mut_rc"] = rc
        rec["demo_mut_tail"] = o[-800:]
        rec["ok"] = (rec["demo_clean_rc"] == 0 and rec["demo_mut_rc"] != 0 and rec["tests_passed"] == 76
                     and failed == ["tests/test_table.py::test_table_from_methods"])
        return rec
    finally:
        subprocess.run(["git", "-C", "/repo", "worktree", "remove", "--force", wt], capture_output=True)
        shutil.rmtree(wt, ignore_errors=True)
        print(json.dumps(rec, indent=1))
        if out_path:
            with open(out_path, "w") as fh:
                json.dump(rec, fh, indent=1)


if __name__ == "__main__":
    main()
