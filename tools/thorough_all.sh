#!/bin/bash
# Dev tool: every check once at the thorough tier (evidence and replays go to /var/tmp/xsim-thorough, not to /verif).
# usage: tools/thorough_all.sh [budget seconds per check] [checks...]
cd "$(dirname "$0")/.."
B="${1:-900}"; shift
CHECKS="${*:-C01 C02 C03 C07 C08 C09 C10 C11 C12 C13 C14 C15 C17 C18 C20}"
export XSIM_EVIDENCE_DIR=/var/tmp/xsim-thorough/evidence XSIM_REPLAY_DIR=/var/tmp/xsim-thorough/replays
mkdir -p $XSIM_EVIDENCE_DIR $XSIM_REPLAY_DIR
for c in $CHECKS; do
  out=$(./check $c --tier thorough --budget $B 2>&1); rc=$?
  echo "$c rc=$rc $(echo "$out" | tail -1)"
  [ $rc -ne 0 ] && echo "$out" | grep -A3 "^VIOLATION\|HARNESS" | head -20
done
exit 0
