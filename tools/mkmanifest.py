#!/venv/bin/python
"""Regenerates /verif/MANIFEST.json from xsim.registry (so that the manifest, the registry
and the not_applicable list never drift apart) and validates it against the schema."""
import json
import os
import sys

VERIF = os.path.dirname(os.path.dirname(os.path.abspath(__file__)))
sys.path.insert(0, VERIF)
from xsim.registry import REG, MANIFEST_TEXT, NOT_APPLICABLE  # noqa

ALL = ["C%02d" % i for i in range(1, 21)]

ENGINE_OF = {"manager": "manager-sim", "table": "table-sim", "optimizer": "optimizer-sim"}


def main():
    checks = []
    na = []
    for pid in ALL:
        if pid in REG and pid in MANIFEST_TEXT:
            r = REG[pid]
            t = MANIFEST_TEXT[pid]
            eng = ENGINE_OF[r["module"].split(".")[1]]
            checks.append({
                "property_id": pid,
                "quick_cmd": "./check %s --tier quick" % pid,
                "thorough_cmd": "./check %s --tier thorough" % pid,
                "evidence_file": "/verif/evidence/%s.json" % pid,
                "replay_cmd_template": "./check %s --replay {path}" % pid,
                "engine": eng,
                "level_claimed": {"category": r["level"], "text": t["text"], "design_ref": t["design_ref"]},
                "level_note": t["note"],
                "technique": t["technique"],
            })
        elif pid in NOT_APPLICABLE:
            na.append({"property_id": pid, "reason": NOT_APPLICABLE[pid]})
        else:
            na.append({"property_id": pid, "reason": "check not built yet (in progress); see DESIGN.md section 5 for the plan"})
    served = {}
    for c in checks:
        served.setdefault(c["engine"], []).append(c["property_id"])
    engines = []
    for name, path, kind in [
        ("manager-sim", "xsim/manager", "seeded histories of manager operations executed against the real xdeps Manager (both builds) under a "
         "schedule decided by PYTHONHASHSEED x name salt, simulator-owned logging/fault-injecting containers and callbacks, "
         "pull-evaluation reference model, restarts (pickle, dump/load, clone, refresh), crash points at every container access"),
        ("table-sim", "xsim/table", "seeded histories of Table mutations / lookups / derivations against a naive list-based reference table, "
         "fault-injecting column storage, multi-hash-seed worker pool"),
        ("optimizer-sim", "xsim/optimizer", "seeded optimisation problems (generated plants) driven through Optimize step/solve/reload/... with a "
         "simulator-owned Action that fails or raises at chosen evaluation indices; invariants monitored on every log row"),
    ]:
        if name in served:
            engines.append({"name": name, "path": path, "serves_properties": served[name], "kind_free_text": kind})
    man = {
        "version": 1,
        "setup_cmd": "cd /verif && ./check setup",
        "hooks": {
            "guard": "XDEPS_VERIF",
            "enable": "no hooks were added to /repo: every seam used by the simulator (user containers, callbacks, hash seed, "
                      "pickle/dump, build mode) already exists; each check copies /repo/xdeps from the working tree into a scratch "
                      "dir under /var/tmp and builds it twice (pure Python, and refs.py Cython-compiled)",
            "baseline_off_cmd": "cd /repo && /venv/bin/python -m pytest -ra -q -p no:cacheprovider --timeout=900 --continue-on-collection-errors",
            "source_commits": [],
            "add_only": True,
        },
        "engines": engines,
        "checks": checks,
        "notes": "Technique: deterministic simulation with fault injection (DESIGN.md). One integer (VERIF_SEED, default 20260929) "
                 "decides every generated history, name salt, fault plan and worker hash seed. Exit codes: 0 held (possibly with "
                 "KNOWN-FINDING lines), 1 VIOLATION, 2 harness error. known_findings.txt lists open findings (KF-1 for C01, KF-2 for C11, KF-3 for C02) and the "
                 "defects repaired by fix: commits in /repo.",
        "not_applicable": na,
    }
    p = os.path.join(VERIF, "MANIFEST.json")
    with open(p, "w") as fh:
        json.dump(man, fh, indent=1)
        fh.write("\n")
    try:
        import jsonschema
        schema = json.load(open("/root/.vp/MANIFEST.schema.json"))
        jsonschema.validate(man, schema)
        print("MANIFEST.json valid: %d checks, %d not applicable" % (len(checks), len(na)))
    except ImportError:
        print("MANIFEST.json written (jsonschema not importable here): %d checks" % len(checks))


if __name__ == "__main__":
    main()
