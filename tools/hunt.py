#!/venv/bin/python
"""Dev tool: in-process hunt for rare violations on the current tree (false alarms of the harness, or genuine
findings) over many VERIF_SEED values.  usage: tools/hunt.py <prop> <n seeds> <runs per seed> [first seed]
Runs `n seeds` single-core processes in parallel (alternating /repo's compiled build and a pure copy)."""
import os, subprocess, sys, json
V = os.path.dirname(os.path.dirname(os.path.abspath(__file__)))
CODE = r'''
import sys, os, json, collections, warnings
warnings.simplefilter("ignore")
sys.path.insert(0, %r)
from xsim.worker import Ctx
import xdeps
from xdeps.general import _print; _print.suppress = True
from xsim.registry import driver_for
import fnmatch
prop, seed, n = sys.argv[1], int(sys.argv[2]), int(sys.argv[3])
ctx = Ctx(); ctx.seed = seed; ctx.tier = os.environ.get("TIER", "quick"); ctx.xd = xdeps; ctx.prop = prop; ctx.build = "x"; ctx.hashseed = ""
d = driver_for(prop)
known = ["C01.*.gcyclic", "C11.*.eqne", "C02.subscript.outside"]
out = []
for run in range(n):
    case = d.generate(ctx, run)
    try:
        o = d.execute(ctx, case)
    except Exception as e:
        import traceback
        out.append({"seed": seed, "run": run, "cls": "EXC", "msg": traceback.format_exc()[-600:]}); continue
    v = o["violation"]
    if v and not any(fnmatch.fnmatchcase(v["cls"], k) for k in known):
        out.append({"seed": seed, "run": run, "cls": v["cls"], "msg": v["msg"][:500]})
        if len(out) > 3: break
print("RESULT " + json.dumps(out))
''' % V
def main():
    prop, ns, n = sys.argv[1], int(sys.argv[2]), int(sys.argv[3])
    first = int(sys.argv[4]) if len(sys.argv) > 4 else 1000
    procs = []
    for i in range(ns):
        env = dict(os.environ)
        env["PYTHONPATH"] = "/repo" if i % 2 == 0 else "/var/tmp/purex"
        env["PYTHONHASHSEED"] = str(1000 + i)
        procs.append((first + i, subprocess.Popen(["/venv/bin/python", "-c", CODE, prop, str(first + i), str(n)], env=env,
                                                  stdout=subprocess.PIPE, stderr=subprocess.PIPE, text=True, cwd="/var/tmp")))
    bad = 0
    for seed, p in procs:
        o, e = p.communicate()
        res = [l for l in o.splitlines() if l.startswith("RESULT ")]
        if not res:
            print(prop, "seed", seed, "NO RESULT", e[-400:]); bad += 1; continue
        for v in json.loads(res[-1][7:]):
            bad += 1
            print(prop, "seed", v["seed"], "run", v["run"], v["cls"], v["msg"][:400])
    print("%s: %d seeds x %d runs, %d findings" % (prop, ns, n, bad))
main()
