#!/bin/bash
# usage: tools/soak.sh <first seed> <last seed> [tier] [checks...]
# Runs every check (or the given ones) on the current tree for a range of VERIF_SEED values and reports any run
# that does not exit 0.  Evidence/replays of the soak go to a scratch directory, not to /verif/evidence.
A=$1; B=$2; TIER=${3:-quick}; shift 3
CHECKS=${@:-C01 C02 C03 C07 C08 C09 C10 C11 C12 C13 C14 C15 C17 C18 C20}
cd "$(dirname "$0")/.."
OUT=${SOAK_OUT:-/var/tmp/xsim-soak}
mkdir -p $OUT
export XSIM_EVIDENCE_DIR=$OUT/evidence XSIM_REPLAY_DIR=$OUT/replays
bad=0
for s in $(seq $A $B); do
  for c in $CHECKS; do
    o=$(nice -n 5 ./check $c --tier $TIER --seed $s 2>&1); rc=$?
    echo "seed=$s $c rc=$rc $(echo "$o" | grep -v '^KNOWN' | tail -1 | cut -c1-160)"
    if [ $rc -ne 0 ]; then bad=$((bad+1)); echo "$o" | grep -v '^KNOWN' | head -8 | cut -c1-400; fi
  done
done
echo "soak finished: $bad non-zero exits"
