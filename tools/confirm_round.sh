#!/bin/bash
# usage: tools/confirm_round.sh <dir with out-<prop>/mutK1,mutK2> <letter for K1> <letter for K2> [props...]
# Confirms every delivery of one round of sub-agent changes (tools/confirm_mutant.py, in parallel) and installs the confirmed ones.
R=$1; A=$2; B=$3; shift 3
PROPS=${@:-C01 C02 C03 C07 C08 C09 C10 C11 C12 C13 C14 C15 C17 C18 C20}
cd "$(dirname "$0")/.."
mkdir -p /var/tmp/confirm
for p in $PROPS; do
  for kv in K1:$A K2:$B; do
    k=${kv%%:*}; l=${kv##*:}
    d=$R/out-$p/mut$k
    [ -f $d/patch.diff ] || { echo "missing $d"; continue; }
    [ -f seeded/$p-mut$l/meta.json ] && continue
    ( tools/confirm_mutant.py $d /var/tmp/confirm/$p-mut$l.json > /var/tmp/confirm/$p-mut$l.log 2>&1; echo "$p-mut$l confirmed=$(/venv/bin/python -c "import json;print(json.load(open('/var/tmp/confirm/$p-mut$l.json')).get('ok'))" 2>/dev/null)" ) &
  done
done
wait
tools/install_mutants.py
