#!/usr/bin/env python3-vt
"""Validate MANIFEST.json and every evidence file against the schemas in /root/.vp (needs jsonschema: run with python3-vt)."""
import glob
import json
import os
import sys
import jsonschema

V = os.path.dirname(os.path.dirname(os.path.abspath(__file__)))
ok = True
man = json.load(open(os.path.join(V, "MANIFEST.json")))
try:
    jsonschema.validate(man, json.load(open("/root/.vp/MANIFEST.schema.json")))
    print("MANIFEST.json: valid (%d checks, %d n/a)" % (len(man["checks"]), len(man.get("not_applicable", []))))
except Exception as e:
    ok = False
    print("MANIFEST.json: INVALID", e)
ids = set(c["property_id"] for c in man["checks"]) | set(n["property_id"] for n in man.get("not_applicable", []))
props = [json.loads(l)["id"] for l in open(os.path.join(V, "properties.jsonl"))]
if sorted(ids) != sorted(props):
    ok = False
    print("properties not covered:", sorted(set(props) ^ ids))
es = json.load(open("/root/.vp/EVIDENCE.schema.json"))
for f in sorted(glob.glob(os.path.join(V, "evidence", "*.json"))):
    try:
        jsonschema.validate(json.load(open(f)), es)
        print(os.path.basename(f), "valid")
    except Exception as e:
        ok = False
        print(os.path.basename(f), "INVALID", str(e)[:300])
sys.exit(0 if ok else 1)
